/-
  GeoProofs.ReparseLemmas — helper lemmas for C06 (Parse → JSON → Parse is a fixpoint):
  `scanKeys`, the document well-formedness predicate `DocOK`, per-type equations of `parse`,
  and the round trip of the coordinate parsers.
-/
import GeoProofs.WriteLemmas

namespace Geo

/-! ### scanKeys -/

def isSpecialKey (s : String) : Bool :=
  s == "type" || s == "coordinates" || s == "geometries" || s == "geometry" || s == "features"

/-- one step of `scanKeys` -/
def scanStep (k : Keys) (m : Member) : Keys :=
  match m.2.1 with
  | "type" => { k with type := some m.2.2 }
  | "coordinates" => { k with coordinates := some m.2.2 }
  | "geometries" => { k with geometries := some m.2.2 }
  | "geometry" => { k with geometry := some m.2.2 }
  | "features" => { k with features := some m.2.2 }
  | _ => { k with foreign := k.foreign ++ [m] }

theorem scanKeys_eq (ms : List Member) : scanKeys ms = ms.foldl scanStep {} := rfl

theorem scanStep_foreign (k : Keys) (m : Member) :
    (scanStep k m).foreign = k.foreign ++ (if isSpecialKey m.2.1 then [] else [m]) := by
  unfold scanStep
  split <;> rename_i h <;> simp_all [isSpecialKey]

theorem scanStep_nonspecial (k : Keys) (m : Member) (h : isSpecialKey m.2.1 = false) :
    scanStep k m = { k with foreign := k.foreign ++ [m] } := by
  unfold scanStep
  simp only [isSpecialKey, Bool.or_eq_false_iff, beq_eq_false_iff_ne, ne_eq] at h
  split <;> simp_all

theorem foldl_scanStep_foreign (ms : List Member) (k : Keys) :
    (ms.foldl scanStep k).foreign = k.foreign ++ ms.filter (fun m => !isSpecialKey m.2.1) := by
  induction ms generalizing k with
  | nil => simp
  | cons m ms ih =>
    rw [List.foldl_cons, ih, scanStep_foreign, List.filter_cons]
    cases isSpecialKey m.2.1 <;> simp

/-- the foreign members are the members with a non-standard key, in document order -/
theorem scanKeys_foreign (ms : List Member) :
    (scanKeys ms).foreign = ms.filter (fun m => !isSpecialKey m.2.1) := by
  rw [scanKeys_eq, foldl_scanStep_foreign]; rfl

theorem foldl_scanStep_nonspecial (fm : List Member) (k : Keys)
    (h : ∀ m ∈ fm, isSpecialKey m.2.1 = false) :
    fm.foldl scanStep k = { k with foreign := k.foreign ++ fm } := by
  induction fm generalizing k with
  | nil => simp
  | cons m fm ih =>
    rw [List.foldl_cons, scanStep_nonspecial k m (h m (by simp)), ih _ (fun m' hm' => h m' (by simp [hm']))]
    simp

/-- every standard member found by `scanKeys` is a member of the document -/
theorem foldl_scanStep_mem (P : JVal → Prop) (ms : List Member) (k : Keys)
    (hms : ∀ m ∈ ms, P m.2.2)
    (hk : (∀ v, k.type = some v → P v) ∧ (∀ v, k.coordinates = some v → P v) ∧
      (∀ v, k.geometries = some v → P v) ∧ (∀ v, k.geometry = some v → P v) ∧
      (∀ v, k.features = some v → P v)) :
    let k' := ms.foldl scanStep k
    (∀ v, k'.type = some v → P v) ∧ (∀ v, k'.coordinates = some v → P v) ∧
      (∀ v, k'.geometries = some v → P v) ∧ (∀ v, k'.geometry = some v → P v) ∧
      (∀ v, k'.features = some v → P v) := by
  induction ms generalizing k with
  | nil => exact hk
  | cons m ms ih =>
    rw [List.foldl_cons]
    apply ih _ (fun m' hm' => hms m' (by simp [hm']))
    have hm := hms m (by simp)
    obtain ⟨h1, h2, h3, h4, h5⟩ := hk
    unfold scanStep
    split <;> refine ⟨?_, ?_, ?_, ?_, ?_⟩ <;> intro v hv <;> simp only [Option.some.injEq] at hv <;>
      first
      | (subst hv; exact hm)
      | exact h1 v hv | exact h2 v hv | exact h3 v hv | exact h4 v hv | exact h5 v hv

theorem scanKeys_mem (P : JVal → Prop) (ms : List Member) (hms : ∀ m ∈ ms, P m.2.2) :
    (∀ v, (scanKeys ms).type = some v → P v) ∧ (∀ v, (scanKeys ms).coordinates = some v → P v) ∧
      (∀ v, (scanKeys ms).geometries = some v → P v) ∧ (∀ v, (scanKeys ms).geometry = some v → P v) ∧
      (∀ v, (scanKeys ms).features = some v → P v) := by
  rw [scanKeys_eq]
  exact foldl_scanStep_mem P ms {} hms ⟨by simp, by simp, by simp, by simp, by simp⟩

/-- `scanKeys` of a written document -/
theorem scanKeys_written (tv : JVal) (key : String) (c : JVal) (fm : List Member)
    (hfm : ∀ m ∈ fm, isSpecialKey m.2.1 = false) :
    scanKeys (mem "type" tv :: mem key c :: fm) =
      { (scanStep (scanStep {} (mem "type" tv)) (mem key c)) with
        foreign := (scanStep (scanStep {} (mem "type" tv)) (mem key c)).foreign ++ fm } := by
  rw [scanKeys_eq, List.foldl_cons, List.foldl_cons, foldl_scanStep_nonspecial _ _ hfm]

end Geo

namespace Geo

/-! ### well-formed documents (tokens + number codec contract) -/

mutual
/-- the leaves are tokens, and (number codec contract) the canonical texts `canon`, `canonK` of a
    finite number are number tokens -/
def JVal.DocOK : JVal → Prop
  | .num fin _ canon canonK raw =>
    IsNumTok raw.toList ∧ (fin = true → IsNumTok canon.toList ∧ IsNumTok canonK.toList)
  | .str raw _ => IsStrTok raw.toList
  | .arr items => DocOKL items
  | .obj ms => DocOKM ms
  | _ => True
def DocOKL : List JVal → Prop
  | [] => True
  | v :: vs => v.DocOK ∧ DocOKL vs
def DocOKM : List Member → Prop
  | [] => True
  | (k, _, v) :: ms => IsStrTok k.toList ∧ v.DocOK ∧ DocOKM ms
end

theorem docOKL_iff : ∀ {vs : List JVal}, DocOKL vs ↔ ∀ v ∈ vs, v.DocOK
  | [] => by simp [DocOKL]
  | v :: vs => by rw [DocOKL, docOKL_iff (vs := vs)]; simp

theorem docOKM_iff : ∀ {ms : List Member}, DocOKM ms ↔ ∀ m ∈ ms, IsStrTok m.1.toList ∧ m.2.2.DocOK
  | [] => by simp [DocOKM]
  | (k, d, v) :: ms => by rw [DocOKM, docOKM_iff (ms := ms)]; simp [and_assoc]

mutual
theorem JVal.DocOK.tokOK : ∀ {v : JVal}, v.DocOK → v.TokOK
  | .null, _ => trivial
  | .tru, _ => trivial
  | .fls, _ => trivial
  | .num _ _ _ _ _, h => by simp only [JVal.DocOK] at h; simpa [JVal.TokOK] using h.1
  | .str _ _, h => by simpa [JVal.DocOK, JVal.TokOK] using h
  | .arr items, h => by
    simp only [JVal.DocOK] at h; simp only [JVal.TokOK]; exact docOKL_tokOK h
  | .obj ms, h => by
    simp only [JVal.DocOK] at h; simp only [JVal.TokOK]; exact docOKM_tokOK h
theorem docOKL_tokOK : ∀ {vs : List JVal}, DocOKL vs → TokOKL vs
  | [], _ => trivial
  | v :: vs, h => by rw [DocOKL] at h; rw [TokOKL]; exact ⟨h.1.tokOK, docOKL_tokOK h.2⟩
theorem docOKM_tokOK : ∀ {ms : List Member}, DocOKM ms → TokOKM ms
  | [], _ => trivial
  | (k, d, v) :: ms, h => by rw [DocOKM] at h; rw [TokOKM]; exact ⟨h.1, h.2.1.tokOK, docOKM_tokOK h.2.2⟩
end

theorem JVal.DocOK.elems {v : JVal} (h : v.DocOK) : ∀ e ∈ v.elems, e.DocOK := by
  cases v with
  | arr items => simp only [JVal.DocOK] at h; simpa [JVal.elems] using docOKL_iff.mp h
  | obj ms =>
    simp only [JVal.DocOK] at h
    intro e he
    simp only [JVal.elems, List.mem_map] at he
    obtain ⟨m, hm, rfl⟩ := he
    exact (docOKM_iff.mp h m hm).2
  | _ => intro e he; simp only [JVal.elems, List.mem_singleton] at he; subst he; exact h

theorem DocOKM.filter {ms : List Member} (h : DocOKM ms) (p : Member → Bool) : DocOKM (ms.filter p) :=
  docOKM_iff.mpr (fun m hm => docOKM_iff.mp h m (List.mem_filter.mp hm).1)

theorem DocOKM.foreign {ms : List Member} (h : DocOKM ms) : DocOKM (scanKeys ms).foreign := by
  rw [scanKeys_foreign]; exact h.filter _

theorem foreign_nonspecial (ms : List Member) : ∀ m ∈ (scanKeys ms).foreign, isSpecialKey m.2.1 = false := by
  rw [scanKeys_foreign]
  intro m hm
  simpa using (List.mem_filter.mp hm).2

/-! ### finiteness of an object -/

def ExFin : Option Extra → Prop
  | none => True
  | some e => ∀ t ∈ e.values, t ≠ "null"

mutual
/-- all positions (ordinates and z/m values, radius of a circle) are finite -/
def AllFin : Obj → Prop
  | .point pos ex => pos.fin = true ∧ ExFin ex
  | .spoint pos => pos.fin = true
  | .lineString _ poss ex => (∀ p ∈ poss, p.fin = true) ∧ ExFin ex
  | .polygon _ rings ex => (∀ r ∈ rings, ∀ p ∈ r, p.fin = true) ∧ ExFin ex
  | .rectO _ lo hi => lo.fin = true ∧ hi.fin = true
  | .coll _ cs _ _ => AllFinL cs
  | .feature b _ => AllFin b
  | .circle c r => c.fin = true ∧ r ≠ "null"
def AllFinL : List Obj → Prop
  | [] => True
  | c :: cs => AllFin c ∧ AllFinL cs
end

theorem allFinL_iff : ∀ {cs : List Obj}, AllFinL cs ↔ ∀ c ∈ cs, AllFin c
  | [] => by simp [AllFinL]
  | c :: cs => by rw [AllFinL, allFinL_iff (cs := cs)]; simp

/-! ### ordinates -/

/-- what a parsed ordinate of a well-formed document satisfies -/
def OrdOK (o : Ord) : Prop := (o.fin = true → IsNumTok o.canon.toList) ∧ (o.fin = false → o.canon = "null")

theorem OrdOK.fin_of_ne {o : Ord} (h : OrdOK o) (hne : o.canon ≠ "null") : o.fin = true := by
  cases hf : o.fin with
  | true => rfl
  | false => exact absurd (h.2 hf) hne

theorem OrdOK.tok_of_ne {o : Ord} (h : OrdOK o) (hne : o.canon ≠ "null") : IsNumTok o.canon.toList :=
  h.1 (h.fin_of_ne hne)

theorem takeNums_ok (a : Bool) : ∀ (vs : List JVal) (c : Nat) (nums : List Ord),
    takeNums a vs c = .ok nums → c ≤ 4 → DocOKL vs → (∀ o ∈ nums, OrdOK o) ∧ nums.length + c ≤ 4
  | [], c, nums, h, hc, _ => by
    simp only [takeNums] at h; cases h; exact ⟨by simp, by simpa using hc⟩
  | v :: vs, c, nums, h, hc, hd => by
    rw [DocOKL] at hd
    by_cases h4 : (c == 4) = true
    · unfold takeNums at h; rw [if_pos h4] at h; cases h; exact ⟨by simp, by simpa using hc⟩
    · have hc' : c + 1 ≤ 4 := by simp at h4; omega
      cases v with
      | num fin val canon canonK raw =>
        unfold takeNums at h; rw [if_neg h4] at h
        simp only at h
        cases hr : takeNums a vs (c + 1) with
        | error e => simp [hr, bind, Except.bind] at h
        | ok rest =>
          simp only [hr, bind, Except.bind, pure, Except.pure, Except.ok.injEq] at h
          subst h
          have ih := takeNums_ok a vs (c + 1) rest hr hc' hd.2
          refine ⟨?_, by simp; omega⟩
          intro o ho
          rcases List.mem_cons.mp ho with rfl | ho
          · have := hd.1
            simp only [JVal.DocOK] at this
            cases fin with
            | true => exact ⟨fun _ => by simpa using (this.2 rfl).1, fun h => by simp at h⟩
            | false => exact ⟨fun h => by simp at h, fun _ => by simp⟩
          · exact ih.1 o ho
      | null =>
        unfold takeNums at h; rw [if_neg h4] at h
        simp only at h
        cases a with
        | false => simp at h
        | true =>
          simp only [if_true] at h
          cases hr : takeNums true vs (c + 1) with
          | error e => simp [hr, bind, Except.bind] at h
          | ok rest =>
            simp only [hr, bind, Except.bind, pure, Except.pure, Except.ok.injEq] at h
            subst h
            have ih := takeNums_ok true vs (c + 1) rest hr hc' hd.2
            refine ⟨?_, by simp; omega⟩
            intro o ho
            rcases List.mem_cons.mp ho with rfl | ho
            · exact ⟨fun h => by simp at h, fun _ => rfl⟩
            · exact ih.1 o ho
      | tru => unfold takeNums at h; rw [if_neg h4] at h; cases h
      | fls => unfold takeNums at h; rw [if_neg h4] at h; cases h
      | str _ _ => unfold takeNums at h; rw [if_neg h4] at h; cases h
      | arr _ => unfold takeNums at h; rw [if_neg h4] at h; cases h
      | obj _ => unfold takeNums at h; rw [if_neg h4] at h; cases h

section Nodes
variable (vf : String → Rat) (kf : String → String)

/-- the number node written for a finite ordinate with value `v` and canonical text `t`
    (`kf` = the ×1000 text a decoder computes; irrelevant to `parse` of written documents) -/
def numN (v : Rat) (t : String) : JVal := .num true v t (kf t) t

/-- node of a z/m text (`vf` = the value a decoder computes) -/
def extraN (t : String) : JVal := numN kf (vf t) t

/-- the written position -/
def posNode (p : Pos) (ts : List String) : JVal :=
  .arr (numN kf p.p.x p.xs :: numN kf p.p.y p.ys :: ts.map (extraN vf kf))

theorem takeNums_nodes (a : Bool) : ∀ (os : List Ord) (c : Nat), c + os.length ≤ 4 →
    (∀ o ∈ os, o.fin = true) →
    takeNums a (os.map (fun o => numN kf o.val o.canon)) c = .ok os
  | [], _, _, _ => rfl
  | o :: os, c, hc, hf => by
    have h4 : ¬ (c == 4) = true := by simp at hc ⊢; omega
    rw [List.map_cons, numN, takeNums, if_neg h4]
    simp only
    have := takeNums_nodes a os (c + 1) (by simp at hc; omega) (fun o' ho' => hf o' (by simp [ho']))
    rw [this]
    have hfo := hf o (by simp)
    obtain ⟨f, v, t⟩ := o
    simp only at hfo
    subst hfo
    simp [bind, Except.bind, pure, Except.pure]

/-- the ordinates read back from a written position -/
def posOrds (p : Pos) (ts : List String) : List Ord :=
  ⟨true, p.p.x, p.xs⟩ :: ⟨true, p.p.y, p.ys⟩ :: ts.map (fun t => ⟨true, vf t, t⟩)

theorem takeNums_posNode (a : Bool) (p : Pos) (ts : List String) (h : ts.length ≤ 2) :
    takeNums a (posNode vf kf p ts).elems 0 = .ok (posOrds vf p ts) := by
  have := takeNums_nodes kf a (posOrds vf p ts) 0 (by simp [posOrds]; omega)
    (by intro o ho; simp only [posOrds, List.mem_cons, List.mem_map] at ho
        rcases ho with rfl | rfl | ⟨t, _, rfl⟩ <;> rfl)
  have e : ts.map (extraN vf kf) = ts.map (fun x => numN kf (vf x) x) := rfl
  simpa [posNode, posOrds, JVal.elems, e, List.map_map, Function.comp_def] using this

theorem mkPos_posOrds (p : Pos) (hf : p.fin = true) :
    mkPos ⟨true, p.p.x, p.xs⟩ ⟨true, p.p.y, p.ys⟩ = p := by
  obtain ⟨⟨x, y⟩, f, xs, ys⟩ := p
  simp only at hf
  subst hf
  rfl

theorem posV_posNode {p : Pos} {ex : Option Extra} {i : Nat} {ts : List String}
    (hx : IsNumTok p.xs.toList) (hy : IsNumTok p.ys.toList) (hts : extrasAt ex i = some ts)
    (htok : ∀ t ∈ ts, IsNumTok t.toList) : PosV p ex i (posNode vf kf p ts) := by
  refine ⟨_, _, ts, ts.map (extraN vf kf), .inr ⟨hx, _, rfl⟩, .inr ⟨hy, _, rfl⟩, hts, ?_, rfl⟩
  clear hts
  induction ts with
  | nil => exact .nil
  | cons t ts ih =>
    exact .cons (.inr ⟨htok t (by simp), _, _, rfl⟩) (ih (fun t' ht' => htok t' (by simp [ht'])))

end Nodes

end Geo

namespace Geo

/-! ### the z/m table -/

theorem mapM_getElem_range' (l : List String) (off : Nat) : ∀ (d s : Nat), off + s + d ≤ l.length →
    (List.range' s d).mapM (fun j => l[off + j]?) = some ((l.drop (off + s)).take d)
  | 0, s, _ => by simp
  | d + 1, s, h => by
    have hlt : off + s < l.length := by omega
    rw [List.range'_succ, List.mapM_cons, mapM_getElem_range' l off d (s + 1) (by omega)]
    simp only [List.getElem?_eq_getElem hlt, Option.bind_eq_bind, Option.bind_some, Option.pure_def, Option.some.injEq]
    rw [List.drop_eq_getElem_cons hlt, List.take_succ_cons]
    rfl

/-- the chunk of z/m texts of position `i` -/
def chunkOf (ex : Option Extra) (i : Nat) : List String :=
  match ex with
  | none => []
  | some e => (e.values.drop (i * e.dims)).take e.dims

theorem extrasAt_chunk (ex : Option Extra) (i : Nat)
    (h : match ex with | none => True | some e => (i + 1) * e.dims ≤ e.values.length) :
    extrasAt ex i = some (chunkOf ex i) := by
  cases ex with
  | none => rfl
  | some e =>
    simp only at h
    simp only [extrasAt, chunkOf, List.range_eq_range']
    have := mapM_getElem_range' e.values (i * e.dims) e.dims 0 (by rw [Nat.add_mul] at h; omega)
    simpa using this


end Geo

namespace Geo

/-! ### dimStep -/

/-- the z/m texts `dimStep` appends for one position (absent ordinates are "0") -/
def padVals (d : Nat) (nums : List Ord) : List String :=
  (List.range d).map (fun i => match nums[2+i]? with | some o => o.canon | none => "0")

theorem dimStep_none_short {st : DimSt} {nums : List Ord} {b : Bool} (hst : st.ex = none)
    (hl : nums.length ≤ 2) : dimStep st nums b = .ok st := by
  have : ¬ nums.length > 2 := by omega
  simp [dimStep, hst, this, bind, Except.bind, pure, Except.pure]

theorem dimStep_none_long {st : DimSt} {nums : List Ord} {b : Bool} (hst : st.ex = none)
    (hl : nums.length > 2) :
    dimStep st nums b =
      if b then .ok ⟨some ⟨if nums.length > 3 then 2 else 1,
          padVals (if nums.length > 3 then 2 else 1) nums, "", false⟩, if nums.length > 3 then 2 else 1⟩
      else .error .coordsInvalid := by
  cases b
  · simp [dimStep, hst, hl, bind, Except.bind, pure, Except.pure, padVals]
  · simp [dimStep, hst, hl, bind, Except.bind, pure, Except.pure, padVals]
    intro a _; cases nums[2 + a]? <;> rfl

theorem dimStep_some {st : DimSt} {nums : List Ord} {b : Bool} {e : Extra} (hst : st.ex = some e) :
    dimStep st nums b = .ok { st with ex := some { e with values := e.values ++ padVals st.dims nums } } := by
  simp [dimStep, hst, bind, Except.bind, pure, Except.pure, padVals]
  intro a _; cases nums[2 + a]? <;> rfl

theorem padVals_length (d : Nat) (nums : List Ord) : (padVals d nums).length = d := by simp [padVals]

theorem padVals_tok {d : Nat} {nums : List Ord} (h : ∀ o ∈ nums, OrdOK o) :
    ∀ t ∈ padVals d nums, t ≠ "null" → IsNumTok t.toList := by
  intro t ht hne
  simp only [padVals, List.mem_map, List.mem_range] at ht
  obtain ⟨i, _, rfl⟩ := ht
  split at hne
  · rename_i o ho
    exact (h o (List.mem_of_getElem? ho)).tok_of_ne hne
  · exact numTokB_sound (by decide)

/-- state invariant after `n` positions have been read -/
def SInv (n : Nat) (st : DimSt) : Prop :=
  st.ex = none ∨ ∃ d vals, st = ⟨some ⟨d, vals, "", false⟩, d⟩ ∧ (d = 1 ∨ d = 2) ∧
    vals.length = n * d ∧ 0 < n ∧ ∀ t ∈ vals, t ≠ "null" → IsNumTok t.toList

theorem dimStep_inv {n : Nat} {st st' : DimSt} {nums : List Ord} {b : Bool} (hinv : SInv n st)
    (hn : ∀ o ∈ nums, OrdOK o) (hlen : nums.length ≤ 4) (hb : b = true → n = 0)
    (h : dimStep st nums b = .ok st') : SInv (n + 1) st' := by
  rcases hinv with hst | ⟨d, vals, rfl, hd, hlenv, hpos, htok⟩
  · by_cases hl : nums.length > 2
    · rw [dimStep_none_long hst hl] at h
      cases b with
      | false => simp at h
      | true =>
        simp only [if_true, Except.ok.injEq] at h
        subst h
        have hn0 := hb rfl
        subst hn0
        refine .inr ⟨_, _, rfl, ?_, ?_, by omega, padVals_tok hn⟩
        · split <;> simp
        · simp [padVals_length]
    · rw [dimStep_none_short hst (by omega)] at h
      cases h
      exact .inl hst
  · rw [dimStep_some rfl] at h
    cases h
    refine .inr ⟨d, _, rfl, hd, ?_, by omega, ?_⟩
    · simp [padVals_length, hlenv, Nat.add_mul]
    · intro t ht
      rcases List.mem_append.mp ht with ht | ht
      · exact htok t ht
      · exact padVals_tok hn t ht

/-- token facts of a parsed position -/
def PosTok (p : Pos) : Prop := p.fin = true → IsNumTok p.xs.toList ∧ IsNumTok p.ys.toList

theorem posTok_mkPos {x y : Ord} (hx : OrdOK x) (hy : OrdOK y) : PosTok (mkPos x y) := by
  intro hf
  simp only [mkPos, Bool.and_eq_true] at hf
  exact ⟨hx.1 hf.1, hy.1 hf.2⟩

end Geo

namespace Geo

/-! ### forward invariants of the coordinate loops -/

theorem lineLoop_inv : ∀ (vs : List JVal) (acc : List Pos) (st : DimSt) (ps : List Pos) (st' : DimSt),
    parseLineCoordsLoop vs acc st = .ok (ps, st') → DocOKL vs → SInv acc.length st →
    (∀ p ∈ acc, PosTok p) → SInv ps.length st' ∧ (∀ p ∈ ps, PosTok p)
  | [], acc, st, ps, st', h, _, hinv, hacc => by
    simp only [parseLineCoordsLoop, Except.ok.injEq, Prod.mk.injEq] at h
    obtain ⟨rfl, rfl⟩ := h
    exact ⟨hinv, hacc⟩
  | v :: vs, acc, st, ps, st', h, hd, hinv, hacc => by
    rw [DocOKL] at hd
    rw [parseLineCoordsLoop] at h
    by_cases ha : v.isArray = true
    · simp only [ha, Bool.not_true, Bool.false_eq_true, if_false, bind, Except.bind, pure, Except.pure] at h
      cases hn : takeNums false v.elems 0 with
      | error e => simp [hn] at h
      | ok nums =>
        have hno := takeNums_ok false v.elems 0 nums hn (by omega) (docOKL_iff.mpr hd.1.elems)
        simp only [hn] at h
        match nums, hno, h with
        | [], _, h => simp [throw, throwThe, MonadExceptOf.throw] at h
        | [_], _, h => simp [throw, throwThe, MonadExceptOf.throw] at h
        | x :: y :: rest, hno, h =>
          simp only at h
          cases hs : dimStep st (x :: y :: rest) ((acc ++ [mkPos x y]).length == 1) with
          | error e => rw [hs] at h; simp at h
          | ok st1 =>
            rw [hs] at h
            simp only at h
            have hinv1 := dimStep_inv hinv hno.1 (by simpa using hno.2)
              (by simp) hs
            have := lineLoop_inv vs (acc ++ [mkPos x y]) st1 ps st' h hd.2 (by simpa using hinv1)
              (by
                intro p hp
                rcases List.mem_append.mp hp with hp | hp
                · exact hacc p hp
                · simp only [List.mem_singleton] at hp; subst hp
                  exact posTok_mkPos (hno.1 x (by simp)) (hno.1 y (by simp)))
            exact this
    · simp [ha, bind, Except.bind, throw, throwThe, MonadExceptOf.throw] at h

theorem ringLoop_inv (j n0 : Nat) (hj : j = 0 → n0 = 0) :
    ∀ (vs : List JVal) (acc : List Pos) (st : DimSt) (r : List Pos) (st' : DimSt),
    parseRingLoop j vs acc st = .ok (r, st') → DocOKL vs → SInv (n0 + acc.length) st →
    (∀ p ∈ acc, PosTok p) → SInv (n0 + r.length) st' ∧ (∀ p ∈ r, PosTok p)
  | [], acc, st, ps, st', h, _, hinv, hacc => by
    simp only [parseRingLoop, Except.ok.injEq, Prod.mk.injEq] at h
    obtain ⟨rfl, rfl⟩ := h
    exact ⟨hinv, hacc⟩
  | v :: vs, acc, st, ps, st', h, hd, hinv, hacc => by
    rw [DocOKL] at hd
    rw [parseRingLoop] at h
    simp only [bind, Except.bind] at h
    cases hn : takeNums false v.elems 0 with
    | error e => simp [hn] at h
    | ok nums =>
      have hno := takeNums_ok false v.elems 0 nums hn (by omega) (docOKL_iff.mpr hd.1.elems)
      simp only [hn] at h
      match nums, hno, h with
      | [], _, h => simp [throw, throwThe, MonadExceptOf.throw] at h
      | [_], _, h => simp [throw, throwThe, MonadExceptOf.throw] at h
      | x :: y :: rest, hno, h =>
        simp only at h
        cases hs : dimStep st (x :: y :: rest) (j == 0 && (acc ++ [mkPos x y]).length == 1) with
        | error e => rw [hs] at h; simp at h
        | ok st1 =>
          rw [hs] at h
          simp only at h
          have hinv1 := dimStep_inv hinv hno.1 (by simpa using hno.2)
            (by simp only [Bool.and_eq_true, beq_iff_eq, List.length_append, List.length_singleton]
                intro hb; have := hj hb.1; omega) hs
          exact ringLoop_inv j n0 hj vs (acc ++ [mkPos x y]) st1 ps st' h hd.2
            (by simpa [Nat.add_assoc] using hinv1)
            (by
              intro p hp
              rcases List.mem_append.mp hp with hp | hp
              · exact hacc p hp
              · simp only [List.mem_singleton] at hp; subst hp
                exact posTok_mkPos (hno.1 x (by simp)) (hno.1 y (by simp)))

/-- total number of positions -/
def total (rs : List (List Pos)) : Nat := (rs.map List.length).sum

theorem total_append (a b : List (List Pos)) : total (a ++ b) = total a + total b := by
  simp [total]

theorem polyLoop_inv : ∀ (vs : List JVal) (acc : List (List Pos)) (st : DimSt) (rings : List (List Pos))
    (st' : DimSt), parsePolyCoordsLoop vs acc st = .ok (rings, st') → DocOKL vs → SInv (total acc) st →
    (acc.length = 0 → total acc = 0) →
    (∀ r ∈ acc, ∀ p ∈ r, PosTok p) → SInv (total rings) st' ∧ (∀ r ∈ rings, ∀ p ∈ r, PosTok p)
  | [], acc, st, rings, st', h, _, hinv, _, hacc => by
    simp only [parsePolyCoordsLoop, Except.ok.injEq, Prod.mk.injEq] at h
    obtain ⟨rfl, rfl⟩ := h
    exact ⟨hinv, hacc⟩
  | v :: vs, acc, st, rings, st', h, hd, hinv, h0, hacc => by
    rw [DocOKL] at hd
    rw [parsePolyCoordsLoop] at h
    by_cases ha : v.isArray = true
    · simp only [ha, Bool.not_true, Bool.false_eq_true, if_false, bind, Except.bind] at h
      cases hr : parseRingLoop acc.length v.elems [] st with
      | error e => simp [hr] at h
      | ok res =>
        obtain ⟨ring, st1⟩ := res
        rw [hr] at h
        simp only at h
        have := ringLoop_inv acc.length (total acc) h0 v.elems [] st ring st1 hr
          (docOKL_iff.mpr hd.1.elems) (by simpa using hinv) (by simp)
        exact polyLoop_inv vs (acc ++ [ring]) st1 rings st' h hd.2
          (by simpa [total_append, total] using this.1) (by simp)
          (by
            intro r hr' p hp
            rcases List.mem_append.mp hr' with hr' | hr'
            · exact hacc r hr' p hp
            · simp only [List.mem_singleton] at hr'; subst hr'; exact this.2 p hp)
    · simp [ha, bind, Except.bind, throw, throwThe, MonadExceptOf.throw] at h


end Geo

namespace Geo

/-! ### reparsing the written coordinates -/

/-- shape of the `extra` a coordinate parser returns for `N` positions -/
def TableFull (ex : Option Extra) (N : Nat) : Prop :=
  match ex with
  | none => True
  | some e => (e.dims = 1 ∨ e.dims = 2) ∧ e.values.length = N * e.dims ∧ 0 < N ∧ e.members = "" ∧
      e.hasProps = false ∧ ∀ t ∈ e.values, IsNumTok t.toList

theorem tableFull_of_inv {N : Nat} {st : DimSt} (h : SInv N st) (hfin : ExFin st.ex) : TableFull st.ex N := by
  rcases h with h | ⟨d, vals, rfl, hd, hl, hN, htok⟩
  · rw [h]; trivial
  · exact ⟨hd, hl, hN, rfl, rfl, fun t ht => htok t ht (hfin t ht)⟩

/-- parser state after `n` written positions have been read back -/
def stAt (ex : Option Extra) (n : Nat) : DimSt :=
  match ex with
  | none => {}
  | some e => if n = 0 then {} else ⟨some { e with values := e.values.take (n * e.dims) }, e.dims⟩

theorem stAt_final {ex : Option Extra} {N : Nat} (h : TableFull ex N) : (stAt ex N).ex = ex := by
  cases ex with
  | none => rfl
  | some e =>
    obtain ⟨_, hl, hN, _⟩ := h
    have : ¬ N = 0 := by omega
    simp only [stAt, if_neg this]
    rw [← hl, List.take_length]

theorem chunkOf_length {ex : Option Extra} {N i : Nat} (h : TableFull ex N) (hi : i < N) :
    (chunkOf ex i).length = match ex with | none => 0 | some e => e.dims := by
  cases ex with
  | none => rfl
  | some e =>
    obtain ⟨_, hl, _⟩ := h
    simp only [chunkOf, List.length_take, List.length_drop, hl]
    have : (i + 1) * e.dims ≤ N * e.dims := Nat.mul_le_mul_right _ hi
    rw [Nat.add_mul] at this
    omega

theorem chunkOf_tok {ex : Option Extra} {N i : Nat} (h : TableFull ex N) :
    ∀ t ∈ chunkOf ex i, IsNumTok t.toList := by
  cases ex with
  | none => simp [chunkOf]
  | some e =>
    intro t ht
    exact h.2.2.2.2.2 t (List.mem_of_mem_drop (List.mem_of_mem_take ht))

theorem extrasAt_full {ex : Option Extra} {N i : Nat} (h : TableFull ex N) (hi : i < N) :
    extrasAt ex i = some (chunkOf ex i) := by
  apply extrasAt_chunk
  cases ex with
  | none => trivial
  | some e =>
    obtain ⟨_, hl, _⟩ := h
    simp only [hl]
    exact Nat.mul_le_mul_right _ hi

section Nodes
variable (vf : String → Rat) (kf : String → String)

theorem padVals_posOrds (p : Pos) (ts : List String) : padVals ts.length (posOrds vf p ts) = ts := by
  apply List.ext_getElem
  · simp [padVals]
  · intro i h1 h2
    simp only [padVals, List.getElem_map, List.getElem_range, posOrds]
    rw [Nat.add_comm 2 i]
    simp [h2]

theorem dimStep_stAt {ex : Option Extra} {N n : Nat} (hT : TableFull ex N) (hn : n < N) (p : Pos) (b : Bool)
    (hb : n = 0 → b = true) :
    dimStep (stAt ex n) (posOrds vf p (chunkOf ex n)) b = .ok (stAt ex (n + 1)) := by
  have hlen := chunkOf_length hT hn
  cases ex with
  | none =>
    simp only [stAt]
    exact dimStep_none_short rfl (by simp [posOrds, chunkOf])
  | some e =>
    simp only at hlen
    obtain ⟨hd, hl, hN, hm, hp, _⟩ := hT
    have hpad := padVals_posOrds vf p (chunkOf (some e) n)
    rw [hlen] at hpad
    obtain ⟨d, vals, m, hpr⟩ := e
    simp only at hd hl hm hp hlen hpad
    subst hm hp
    by_cases h0 : n = 0
    · subst h0
      have hbt := hb rfl
      subst hbt
      simp only [stAt, if_true]
      rw [dimStep_none_long rfl (by simp [posOrds, hlen]; omega)]
      have hdd : (if (posOrds vf p (chunkOf (some ⟨d, vals, "", false⟩) 0)).length > 3 then 2 else 1) = d := by
        simp only [posOrds, List.length_cons, List.length_map, hlen]
        rcases hd with rfl | rfl <;> simp
      rw [hdd, hpad]
      simp [chunkOf]
    · have h1 : ¬ n + 1 = 0 := by omega
      simp only [stAt, if_neg h0, if_neg h1]
      rw [dimStep_some rfl]
      have hpad' : padVals d (posOrds vf p (List.take d (List.drop (n * d) vals))) =
          List.take d (List.drop (n * d) vals) := hpad
      simp only [chunkOf, Except.ok.injEq, hpad']
      congr 3
      rw [Nat.add_mul, Nat.one_mul, List.take_add]

/-- the written series / rings (z/m chunks taken from the table of `ex`) -/
def seriesNodes (ex : Option Extra) : List Pos → Nat → List JVal
  | [], _ => []
  | p :: ps, i => posNode vf kf p (chunkOf ex i) :: seriesNodes ex ps (i + 1)

def ringsNodes (ex : Option Extra) : List (List Pos) → Nat → List JVal
  | [], _ => []
  | r :: rs, i => .arr (seriesNodes vf kf ex r i) :: ringsNodes ex rs (i + r.length)

theorem chunk_le_two {ex : Option Extra} {N n : Nat} (hT : TableFull ex N) (hn : n < N) :
    (chunkOf ex n).length ≤ 2 := by
  rw [chunkOf_length hT hn]
  cases ex with
  | none => simp
  | some e => rcases hT.1 with h | h <;> simp [h]

theorem lineLoop_nodes {ex : Option Extra} {N : Nat} (hT : TableFull ex N) :
    ∀ (ps acc : List Pos), (∀ p ∈ ps, p.fin = true) → acc.length + ps.length ≤ N →
    parseLineCoordsLoop (seriesNodes vf kf ex ps acc.length) acc (stAt ex acc.length) =
      .ok (acc ++ ps, stAt ex (acc.length + ps.length))
  | [], acc, _, _ => by simp [seriesNodes, parseLineCoordsLoop]
  | p :: ps, acc, hf, hN => by
    have hn : acc.length < N := by simp at hN; omega
    rw [seriesNodes, parseLineCoordsLoop]
    have hta := takeNums_posNode vf kf false p (chunkOf ex acc.length) (chunk_le_two hT hn)
    simp only [posNode, JVal.isArray, Bool.not_true, Bool.false_eq_true, if_false, bind, Except.bind]
    simp only [posNode] at hta
    rw [hta]
    simp only [posOrds]
    rw [mkPos_posOrds p (hf p (by simp))]
    have hs := dimStep_stAt vf hT hn p ((acc ++ [p]).length == 1) (by simp)
    simp only [posOrds] at hs
    rw [hs]
    have := lineLoop_nodes hT ps (acc ++ [p]) (fun q hq => hf q (by simp [hq])) (by simp at hN ⊢; omega)
    simp only [List.length_append, List.length_singleton] at this
    simp only [this, List.append_assoc, List.singleton_append, List.length_cons]
    congr 3
    omega

theorem ringLoop_nodes {ex : Option Extra} {N : Nat} (hT : TableFull ex N) (j n0 : Nat) (hj : n0 = 0 → j = 0) :
    ∀ (ps acc : List Pos), (∀ p ∈ ps, p.fin = true) → n0 + acc.length + ps.length ≤ N →
    parseRingLoop j (seriesNodes vf kf ex ps (n0 + acc.length)) acc (stAt ex (n0 + acc.length)) =
      .ok (acc ++ ps, stAt ex (n0 + acc.length + ps.length))
  | [], acc, _, _ => by simp [seriesNodes, parseRingLoop]
  | p :: ps, acc, hf, hN => by
    have hn : n0 + acc.length < N := by simp at hN; omega
    rw [seriesNodes, parseRingLoop]
    have hta := takeNums_posNode vf kf false p (chunkOf ex (n0 + acc.length)) (chunk_le_two hT hn)
    simp only [bind, Except.bind]
    rw [hta]
    simp only [posOrds]
    rw [mkPos_posOrds p (hf p (by simp))]
    have hs := dimStep_stAt vf hT hn p (j == 0 && (acc ++ [p]).length == 1)
      (by intro h0; have h1 : n0 = 0 := by omega
          have h2 : acc.length = 0 := by omega
          simp [hj h1, h2])
    simp only [posOrds] at hs
    rw [hs]
    have := ringLoop_nodes hT j n0 hj ps (acc ++ [p]) (fun q hq => hf q (by simp [hq])) (by simp at hN ⊢; omega)
    simp only [List.length_append, List.length_singleton, ← Nat.add_assoc] at this
    simp only [this, List.append_assoc, List.singleton_append, List.length_cons]
    congr 3
    omega

end Nodes
end Geo

namespace Geo
section Nodes
variable (vf : String → Rat) (kf : String → String)

theorem polyLoop_nodes {ex : Option Extra} {N : Nat} (hT : TableFull ex N) :
    ∀ (rs acc : List (List Pos)), (∀ r ∈ rs, r ≠ [] ∧ ∀ p ∈ r, p.fin = true) →
    total acc + total rs ≤ N → (total acc = 0 → acc.length = 0) →
    parsePolyCoordsLoop (ringsNodes vf kf ex rs (total acc)) acc (stAt ex (total acc)) =
      .ok (acc ++ rs, stAt ex (total acc + total rs))
  | [], acc, _, _, _ => by simp [ringsNodes, parsePolyCoordsLoop, total]
  | r :: rs, acc, hf, hN, h0 => by
    have htr : total (r :: rs) = r.length + total rs := by simp [total]
    rw [ringsNodes, parsePolyCoordsLoop]
    simp only [JVal.isArray, Bool.not_true, Bool.false_eq_true, if_false, bind, Except.bind, JVal.elems]
    have hr := ringLoop_nodes vf kf hT acc.length (total acc) h0 r [] (hf r (by simp)).2
      (by simp; omega)
    simp only [List.length_nil, Nat.add_zero, List.nil_append] at hr
    rw [hr]
    simp only
    have hne : 0 < r.length := List.length_pos_iff.mpr (hf r (by simp)).1
    have e1 : total (acc ++ [r]) = total acc + r.length := by simp [total_append, total]
    rw [htr] at hN
    have := polyLoop_nodes hT rs (acc ++ [r]) (fun q hq => hf q (by simp [hq]))
      (by rw [e1]; omega)
      (by rw [e1]; omega)
    rw [e1] at this
    rw [this]
    simp only [List.append_assoc, List.singleton_append, htr, Nat.add_assoc]

theorem seriesV_nodes {ex ex' : Option Extra} {N : Nat} (hT : TableFull ex N)
    (hex : ∀ i, extrasAt ex' i = extrasAt ex i) :
    ∀ (ps : List Pos) (i : Nat), (∀ p ∈ ps, p.fin = true ∧ PosTok p) → i + ps.length ≤ N →
    SeriesV ex' ps i (seriesNodes vf kf ex ps i)
  | [], _, _, _ => rfl
  | p :: ps, i, hp, hN => by
    have hi : i < N := by simp at hN; omega
    have hpp := hp p (by simp)
    refine ⟨_, _, rfl, ?_, seriesV_nodes hT hex ps (i + 1) (fun q hq => hp q (by simp [hq]))
      (by simp at hN; omega)⟩
    exact posV_posNode vf kf (hpp.2 hpp.1).1 (hpp.2 hpp.1).2 (by rw [hex, extrasAt_full hT hi])
      (chunkOf_tok hT)

theorem ringsV_nodes {ex ex' : Option Extra} {N : Nat} (hT : TableFull ex N)
    (hex : ∀ i, extrasAt ex' i = extrasAt ex i) :
    ∀ (rs : List (List Pos)) (i : Nat), (∀ r ∈ rs, ∀ p ∈ r, p.fin = true ∧ PosTok p) → i + total rs ≤ N →
    RingsV ex' rs i (ringsNodes vf kf ex rs i)
  | [], _, _, _ => rfl
  | r :: rs, i, hp, hN => by
    have htr : total (r :: rs) = r.length + total rs := by simp [total]
    exact ⟨_, _, rfl, seriesV_nodes vf kf hT hex r i (hp r (by simp)) (by omega),
      ringsV_nodes hT hex rs (i + r.length) (fun q hq => hp q (by simp [hq])) (by omega)⟩

end Nodes

theorem extrasAt_withMembers (ex : Option Extra) (k : Keys) (i : Nat) :
    extrasAt (withMembers ex k) i = extrasAt ex i := by
  unfold withMembers
  split
  · rfl
  · cases ex with
    | none => simp [extrasAt]
    | some e => rfl

/-- `members`/`hasProps` of an object's `extra` -/
def exMembers' (ex : Option Extra) : String := match ex with | none => "" | some e => e.members

theorem withMembers_members {ex : Option Extra} (k : Keys) (h : exMembers' ex = "") :
    exMembers' (withMembers ex k) = k.members := by
  unfold withMembers
  split
  · rename_i hk
    simp only [beq_iff_eq] at hk
    rw [hk]; exact h
  · cases ex <;> rfl

/-! ### the three coordinate parsers: forward facts and round trip -/

theorem parseLineCoords_fwd {rc : JVal} {ps : List Pos} {ex : Option Extra}
    (h : parseLineCoords rc = .ok (ps, ex)) (hd : rc.DocOK) (hfin : ExFin ex) :
    TableFull ex ps.length ∧ ∀ p ∈ ps, PosTok p := by
  unfold parseLineCoords at h
  cases hl : parseLineCoordsLoop rc.elems [] {} with
  | error e => simp [hl, bind, Except.bind] at h
  | ok res =>
    obtain ⟨ps', st⟩ := res
    simp only [hl, bind, Except.bind, pure, Except.pure, Except.ok.injEq, Prod.mk.injEq] at h
    obtain ⟨rfl, rfl⟩ := h
    have := lineLoop_inv rc.elems [] {} ps' st hl (docOKL_iff.mpr hd.elems) (.inl rfl) (by simp)
    exact ⟨tableFull_of_inv this.1 hfin, this.2⟩

theorem parsePolyCoords_fwd {rc : JVal} {rings : List (List Pos)} {ex : Option Extra}
    (h : parsePolyCoords rc = .ok (rings, ex)) (hd : rc.DocOK) (hfin : ExFin ex) :
    TableFull ex (total rings) ∧ ∀ r ∈ rings, ∀ p ∈ r, PosTok p := by
  unfold parsePolyCoords at h
  cases hl : parsePolyCoordsLoop rc.elems [] {} with
  | error e => simp [hl, bind, Except.bind] at h
  | ok res =>
    obtain ⟨rs', st⟩ := res
    simp only [hl, bind, Except.bind, pure, Except.pure, Except.ok.injEq, Prod.mk.injEq] at h
    obtain ⟨rfl, rfl⟩ := h
    have := polyLoop_inv rc.elems [] {} rs' st hl (docOKL_iff.mpr hd.elems) (.inl rfl) (by simp [total])
      (by simp)
    exact ⟨tableFull_of_inv this.1 hfin, this.2⟩

section Nodes
variable (vf : String → Rat) (kf : String → String)

theorem parseLineCoords_nodes {ex : Option Extra} {ps : List Pos} (hT : TableFull ex ps.length)
    (hf : ∀ p ∈ ps, p.fin = true) :
    parseLineCoords (.arr (seriesNodes vf kf ex ps 0)) = .ok (ps, ex) := by
  have := lineLoop_nodes vf kf hT ps [] hf (by simp)
  simp only [List.length_nil, Nat.zero_add, List.nil_append] at this
  have h0 : stAt ex 0 = {} := by cases ex <;> simp [stAt]
  rw [h0] at this
  simp [parseLineCoords, JVal.elems, this, bind, Except.bind, pure, Except.pure, stAt_final hT]

theorem parsePolyCoords_nodes {ex : Option Extra} {rings : List (List Pos)} (hT : TableFull ex (total rings))
    (hf : ∀ r ∈ rings, r ≠ [] ∧ ∀ p ∈ r, p.fin = true) :
    parsePolyCoords (.arr (ringsNodes vf kf ex rings 0)) = .ok (rings, ex) := by
  have := polyLoop_nodes vf kf hT rings [] hf (by simp [total]) (by simp)
  have ht0 : total [] = 0 := rfl
  simp only [ht0, Nat.zero_add, List.nil_append] at this
  have h0 : stAt ex 0 = {} := by cases ex <;> simp [stAt]
  rw [h0] at this
  simp [parsePolyCoords, JVal.elems, this, bind, Except.bind, pure, Except.pure, stAt_final hT]

end Nodes
end Geo

namespace Geo

/-- the `extra` of a parsed point with z/m texts `ts` -/
def pointEx (ts : List String) : Option Extra :=
  if ts.isEmpty then none else some ⟨ts.length, ts, "", false⟩

theorem parsePointCoords_fwd {rc : JVal} {pos : Pos} {ex : Option Extra}
    (h : parsePointCoords rc = .ok (pos, ex)) (hd : rc.DocOK) (hfin : pos.fin = true) (hex : ExFin ex) :
    ∃ ts, ts.length ≤ 2 ∧ ex = pointEx ts ∧ (∀ t ∈ ts, IsNumTok t.toList) ∧
      IsNumTok pos.xs.toList ∧ IsNumTok pos.ys.toList := by
  unfold parsePointCoords at h
  cases hn : takeNums true rc.elems 0 with
  | error e => simp [hn, bind, Except.bind] at h
  | ok nums =>
    have hno := takeNums_ok true rc.elems 0 nums hn (by omega) (docOKL_iff.mpr hd.elems)
    simp only [hn, bind, Except.bind] at h
    match nums, hno, h with
    | [], _, h => simp at h
    | [_], _, h => simp at h
    | x :: y :: rest, hno, h =>
      simp only [pure, Except.pure, Except.ok.injEq, Prod.mk.injEq] at h
      obtain ⟨rfl, rfl⟩ := h
      have hxy := posTok_mkPos (hno.1 x (by simp)) (hno.1 y (by simp)) hfin
      refine ⟨rest.map (·.canon), by simpa using hno.2, by simp [pointEx], ?_, hxy.1, hxy.2⟩
      intro t ht
      simp only [List.mem_map] at ht
      obtain ⟨o, ho, rfl⟩ := ht
      have hne : o.canon ≠ "null" := by
        by_cases hr : rest.isEmpty = true
        · simp only [List.isEmpty_iff] at hr; subst hr; cases ho
        · simp only [hr] at hex
          exact hex o.canon (by simp; exact ⟨o, ho, rfl⟩)
      exact (hno.1 o (by simp [ho])).tok_of_ne hne

theorem extrasAt_pointEx (ts : List String) : extrasAt (pointEx ts) 0 = some ts := by
  unfold pointEx
  split
  · rename_i h; simp only [List.isEmpty_iff] at h; subst h; rfl
  · simp only [extrasAt, List.range_eq_range']
    have := mapM_getElem_range' ts 0 ts.length 0 (by omega)
    simpa using this

section Nodes
variable (vf : String → Rat) (kf : String → String)

theorem parsePointCoords_nodes (pos : Pos) (ts : List String) (hl : ts.length ≤ 2) (hf : pos.fin = true) :
    parsePointCoords (posNode vf kf pos ts) = .ok (pos, pointEx ts) := by
  unfold parsePointCoords
  rw [takeNums_posNode vf kf true pos ts hl]
  simp only [posOrds, bind, Except.bind, pure, Except.pure]
  rw [mkPos_posOrds pos hf]
  simp [pointEx, Function.comp_def]

end Nodes

/-! ### `"properties":{}` normal form -/

/-- the `extra` of a Feature after one write/parse round: `"properties":{}` has been appended
    to the foreign members if there was no `properties` member -/
def addPropsEx (ex : Option Extra) : Option Extra :=
  if needProps ex true then
    match ex with
    | none => some ⟨0, [], "{\"properties\":{}}", true⟩
    | some e =>
      if e.members = "" then some { e with members := "{\"properties\":{}}", hasProps := true }
      else some { e with members := "{" ++ ((e.members.drop 1).dropEnd 1).toString ++ ",\"properties\":{}}",
                         hasProps := true }
  else ex

mutual
/-- the object after one write/parse round: every Feature without a `properties` member got
    `"properties":{}`; nothing else changes -/
def addProps : Obj → Obj
  | .feature b ex => .feature (addProps b) (addPropsEx ex)
  | .coll k cs ex idx => .coll k (addPropsL cs) ex idx
  | o => o
def addPropsL : List Obj → List Obj
  | [] => []
  | c :: cs => addProps c :: addPropsL cs
end

theorem addPropsL_eq_map : ∀ cs, addPropsL cs = cs.map addProps
  | [] => rfl
  | c :: cs => by rw [addPropsL, addPropsL_eq_map cs]; rfl

mutual
theorem addProps_empty : ∀ x : Obj, (addProps x).empty = x.empty
  | .point _ _ => rfl
  | .spoint _ => rfl
  | .lineString _ _ _ => rfl
  | .polygon _ _ _ => rfl
  | .rectO _ _ _ => rfl
  | .circle _ _ => rfl
  | .feature b _ => by simp only [addProps, Obj.empty]; exact addProps_empty b
  | .coll _ cs _ _ => by simp only [addProps, Obj.empty]; exact addPropsL_allEmpty cs
theorem addPropsL_allEmpty : ∀ cs : List Obj, Obj.allEmpty (addPropsL cs) = Obj.allEmpty cs
  | [] => rfl
  | c :: cs => by simp only [addPropsL, Obj.allEmpty, addProps_empty c, addPropsL_allEmpty cs]
end

theorem mkColl_addProps (o : POpts) (k : CollKind) (cs : List Obj) (ex : Option Extra) :
    mkColl o k (addPropsL cs) ex = addProps (mkColl o k cs ex) := by
  have hf : List.filter ((fun c => !c.empty) ∘ addProps) cs = List.filter (fun c => !c.empty) cs := by
    apply List.filter_congr
    intro c _
    simp [addProps_empty]
  simp only [mkColl, addProps, addPropsL_eq_map, List.filter_map, List.length_map, hf]

/-- same kind of object -/
def kindEq : Obj → Obj → Prop
  | .point _ _, .point _ _ => True
  | .spoint _, .spoint _ => True
  | .lineString _ _ _, .lineString _ _ _ => True
  | .polygon _ _ _, .polygon _ _ _ => True
  | .rectO _ _ _, .rectO _ _ _ => True
  | .coll k _ _ _, .coll k' _ _ _ => k = k'
  | .feature _ _, .feature _ _ => True
  | .circle _ _, .circle _ _ => True
  | _, _ => False

theorem kindEq_addProps (x : Obj) : kindEq x (addProps x) := by
  cases x <;> simp [addProps, kindEq]

end Geo

namespace Geo
set_option linter.unusedVariables false

/-! ### `parse` split by type (bodies copied from GeoModel.Json, `k = scanKeys ms`) -/

def parsePointK (o : POpts) (fuel : Nat) (k : Keys) : Except PErr Obj :=
  match k.coordinates with
  | none => .error .coordsMissing
  | some rc =>
    if !rc.isArray then .error .coordsInvalid
    else match parsePointCoords rc with
      | .error e => .error e
      | .ok (pos, ex) =>
        let ex := withMembers ex k
        let ob : Obj := if ex.isNone && o.allowSimplePoints then .spoint pos else .point pos ex
        if o.requireValid && !ob.valid then .error .coordsInvalid else .ok ob

def parseLineStringK (o : POpts) (fuel : Nat) (k : Keys) : Except PErr Obj :=
  match reqArray k.coordinates .coordsMissing .coordsInvalid with
  | .error e => .error e
  | .ok rc =>
    match parseLineCoords rc with
    | .error e => .error e
    | .ok (ps, ex) =>
      if ps.length < 2 then .error .coordsInvalid
      else
        let ob : Obj := .lineString (mkLine o ps) ps (withMembers ex k)
        if o.requireValid && !ob.valid then .error .dataInvalid else .ok ob

def parsePolygonK (o : POpts) (fuel : Nat) (k : Keys) : Except PErr Obj :=
  match reqArray k.coordinates .coordsMissing .coordsInvalid with
  | .error e => .error e
  | .ok rc =>
    match parsePolyCoords rc with
    | .error e => .error e
    | .ok (rings, ex) =>
      if rings.isEmpty || !(rings.all ringOK) then .error .coordsInvalid
      else
        let ex := withMembers ex k
        let ob : Obj :=
          match rings with
          | [e] =>
            if ex.isNone && o.allowRects && isRectRing e then
              match e with
              | [p0, _, p2, _, _] => .rectO ⟨p0.p, p2.p⟩ p0 p2
              | _ => .polygon (mkPoly o rings) rings ex
            else .polygon (mkPoly o rings) rings ex
          | _ => .polygon (mkPoly o rings) rings ex
        if o.requireValid && !ob.valid then .error .coordsInvalid else .ok ob

def parseMultiPointK (o : POpts) (fuel : Nat) (k : Keys) : Except PErr Obj :=
  match reqArray k.coordinates .coordsMissing .coordsInvalid with
  | .error e => .error e
  | .ok rc =>
    match rc.elems.mapM (fun v => parsePointCoords v) with
    | .error e => .error e
    | .ok cs =>
      let children : List Obj := cs.map (fun c => Obj.point c.1 c.2)
      if o.requireValid && !(children.all Obj.valid) then .error .coordsInvalid
      else .ok (mkColl o .multiPoint children (withMembers none k))

def parseMultiLineStringK (o : POpts) (fuel : Nat) (k : Keys) : Except PErr Obj :=
  match reqArray k.coordinates .coordsMissing .coordsInvalid with
  | .error e => .error e
  | .ok rc =>
    match rc.elems.mapM (fun v => do
        let (ps, ex) ← parseLineCoords v
        if ps.length < 2 then throw PErr.coordsInvalid
        pure (Obj.lineString (mkLine o ps) ps ex)) with
    | .error e => .error e
    | .ok children =>
      let ob := mkColl o .multiLineString children (withMembers none k)
      if o.requireValid && !ob.valid then .error .coordsInvalid else .ok ob

def parseMultiPolygonK (o : POpts) (fuel : Nat) (k : Keys) : Except PErr Obj :=
  match reqArray k.coordinates .coordsMissing .coordsInvalid with
  | .error e => .error e
  | .ok rc =>
    match rc.elems.mapM (fun v => do
        let (rings, ex) ← parsePolyCoords v
        if rings.isEmpty || !(rings.all ringOK) then throw PErr.coordsInvalid
        pure (Obj.polygon (mkPoly o rings) rings ex)) with
    | .error e => .error e
    | .ok children =>
      let ob := mkColl o .multiPolygon children (withMembers none k)
      if o.requireValid && !ob.valid then .error .coordsInvalid else .ok ob

def parseGeometryCollectionK (o : POpts) (fuel : Nat) (k : Keys) : Except PErr Obj :=
  match reqArray k.geometries .geometriesMissing .geometriesInvalid with
  | .error e => .error e
  | .ok (.arr items) =>
    match parseList o fuel items with
    | .error e => .error e
    | .ok children => .ok (mkColl o .geometryCollection children (withMembers none k))
  | .ok _ => .error .geometriesInvalid

def parseFeatureCollectionK (o : POpts) (fuel : Nat) (k : Keys) : Except PErr Obj :=
  match reqArray k.features .featuresMissing .featuresInvalid with
  | .error e => .error e
  | .ok (.arr items) =>
    match parseList o fuel items with
    | .error e => .error e
    | .ok children => .ok (mkColl o .featureCollection children (withMembers none k))
  | .ok _ => .error .featuresInvalid

def parseFeatureK (o : POpts) (fuel : Nat) (k : Keys) : Except PErr Obj :=
  match k.geometry with
  | none => .error .geometryMissing
  | some g =>
    match parse o fuel g with
    | .error e => .error e
    | .ok base =>
      let ex := withMembers none k
      let centre : Option Pos := match base with
        | .point pos _ => some pos
        | .spoint pos => some pos
        | _ => none
      match centre, ex with
      | some c, some _ =>
        let props := (JVal.obj k.foreign).get "properties"
        let ptype := props.bind (fun p => p.get "type")
        if !o.disableCircle && (match ptype with | some (.str _ "Circle") => true | _ => false) then
          let radius := props.bind (fun p => p.get "radius")
          let units := strOf (props.bind (fun p => p.get "radius_units"))
          -- radius.Float(): numbers as they are, true = 1, strings are parsed (unmodelled), else 0
          let rtexts : Option (String × String) := match radius with
            | some (.num fin _ canon canonK _) => if fin then some (canon, canonK) else some ("null", "null")
            | some .tru => some ("1", "1000")
            | some (.str _ _) => none
            | _ => some ("0", "0")
          match rtexts with
          | none => .error .unmodelled
          | some (m, km) =>
            if units == "" || units == "m" then .ok (.circle c m)
            else if units == "km" then .ok (.circle c km)
            else .error .circleUnits
        else .ok (.feature base ex)
      | _, _ => .ok (.feature base ex)

def parseTyped (o : POpts) (fuel : Nat) (k : Keys) (ty : String) : Except PErr Obj :=
  match ty with
  | "Point" => parsePointK o fuel k
  | "LineString" => parseLineStringK o fuel k
  | "Polygon" => parsePolygonK o fuel k
  | "MultiPoint" => parseMultiPointK o fuel k
  | "MultiLineString" => parseMultiLineStringK o fuel k
  | "MultiPolygon" => parseMultiPolygonK o fuel k
  | "GeometryCollection" => parseGeometryCollectionK o fuel k
  | "FeatureCollection" => parseFeatureCollectionK o fuel k
  | "Feature" => parseFeatureK o fuel k
  | _ => .error .typeUnknown

theorem parse_obj_str (o : POpts) (f : Nat) (ms : List Member) (r ty : String)
    (h : (scanKeys ms).type = some (.str r ty)) :
    parse o (f + 1) (.obj ms) = parseTyped o f (scanKeys ms) ty := by
  rw [parse, h]
  rfl

end Geo

namespace Geo

/-! ### parsing a written object -/

theorem scanKeys_coords (ty : String) (c : JVal) (fm : List Member)
    (hfm : ∀ m ∈ fm, isSpecialKey m.2.1 = false) :
    scanKeys (mem "type" (strV ty) :: mem "coordinates" c :: fm) =
      { type := some (strV ty), coordinates := some c, foreign := fm } := by
  rw [scanKeys_written _ _ _ _ hfm]; rfl

theorem scanKeys_geometries (ty : String) (c : JVal) (fm : List Member)
    (hfm : ∀ m ∈ fm, isSpecialKey m.2.1 = false) :
    scanKeys (mem "type" (strV ty) :: mem "geometries" c :: fm) =
      { type := some (strV ty), geometries := some c, foreign := fm } := by
  rw [scanKeys_written _ _ _ _ hfm]; rfl

theorem scanKeys_features (ty : String) (c : JVal) (fm : List Member)
    (hfm : ∀ m ∈ fm, isSpecialKey m.2.1 = false) :
    scanKeys (mem "type" (strV ty) :: mem "features" c :: fm) =
      { type := some (strV ty), features := some c, foreign := fm } := by
  rw [scanKeys_written _ _ _ _ hfm]; rfl

theorem scanKeys_geometry (ty : String) (c : JVal) (fm : List Member)
    (hfm : ∀ m ∈ fm, isSpecialKey m.2.1 = false) :
    scanKeys (mem "type" (strV ty) :: mem "geometry" c :: fm) =
      { type := some (strV ty), geometry := some c, foreign := fm } := by
  rw [scanKeys_written _ _ _ _ hfm]; rfl

theorem parse_mkObj_coords (o : POpts) (g : Nat) (ty : String) (c : JVal) (fm : List Member)
    (hfm : ∀ m ∈ fm, isSpecialKey m.2.1 = false) :
    parse o (g + 1) (mkObj ty "coordinates" c fm) =
      parseTyped o g { type := some (strV ty), coordinates := some c, foreign := fm } ty := by
  rw [mkObj, parse_obj_str _ _ _ ("\"" ++ ty ++ "\"") ty (by rw [scanKeys_coords _ _ _ hfm]; rfl),
    scanKeys_coords _ _ _ hfm]

theorem parse_mkObj_geometries (o : POpts) (g : Nat) (ty : String) (c : JVal) (fm : List Member)
    (hfm : ∀ m ∈ fm, isSpecialKey m.2.1 = false) :
    parse o (g + 1) (mkObj ty "geometries" c fm) =
      parseTyped o g { type := some (strV ty), geometries := some c, foreign := fm } ty := by
  rw [mkObj, parse_obj_str _ _ _ ("\"" ++ ty ++ "\"") ty (by rw [scanKeys_geometries _ _ _ hfm]; rfl),
    scanKeys_geometries _ _ _ hfm]

theorem parse_mkObj_features (o : POpts) (g : Nat) (ty : String) (c : JVal) (fm : List Member)
    (hfm : ∀ m ∈ fm, isSpecialKey m.2.1 = false) :
    parse o (g + 1) (mkObj ty "features" c fm) =
      parseTyped o g { type := some (strV ty), features := some c, foreign := fm } ty := by
  rw [mkObj, parse_obj_str _ _ _ ("\"" ++ ty ++ "\"") ty (by rw [scanKeys_features _ _ _ hfm]; rfl),
    scanKeys_features _ _ _ hfm]

theorem parse_mkObj_geometry (o : POpts) (g : Nat) (ty : String) (c : JVal) (fm : List Member)
    (hfm : ∀ m ∈ fm, isSpecialKey m.2.1 = false) :
    parse o (g + 1) (mkObj ty "geometry" c fm) =
      parseTyped o g { type := some (strV ty), geometry := some c, foreign := fm } ty := by
  rw [mkObj, parse_obj_str _ _ _ ("\"" ++ ty ++ "\"") ty (by rw [scanKeys_geometry _ _ _ hfm]; rfl),
    scanKeys_geometry _ _ _ hfm]

theorem withMembers_congr (ex : Option Extra) {k k' : Keys} (h : k'.foreign = k.foreign) :
    withMembers ex k' = withMembers ex k := by
  have hm : k'.members = k.members := by simp [Keys.members, h]
  have hp : k'.hasProps = k.hasProps := by simp [Keys.hasProps, h]
  unfold withMembers
  rw [hm, hp]

theorem ExFin_withMembers {ex : Option Extra} {k : Keys} (h : ExFin (withMembers ex k)) : ExFin ex := by
  unfold withMembers at h
  split at h
  · exact h
  · cases ex with
    | none => trivial
    | some e => exact h

theorem keys_members_ne {k : Keys} (h : k.foreign ≠ []) : k.members ≠ "" := by
  simp only [Keys.members, List.isEmpty_iff, h, if_false]
  intro h0
  have := congrArg String.toList h0
  simp at this

theorem keys_members_eq {k : Keys} (h : k.foreign = []) : k.members = "" := by
  simp [Keys.members, h]

/-- the foreign members of the parsed document are what the writers emit for `withMembers ex k` -/
theorem membersV_withMembers {ex : Option Extra} {k : Keys} (hex : exMembers' ex = "")
    (hd : DocOKM k.foreign) : MembersV (withMembers ex k) false k.foreign := by
  refine ⟨k.foreign, docOKM_tokOK hd, ?_, by simp [needProps]⟩
  by_cases hf : k.foreign = []
  · have hm := keys_members_eq hf
    simp only [withMembers, hm, beq_self_eq_true, if_true]
    cases ex with
    | none => exact hf
    | some e => simp only [exMembers'] at hex; simp [hex, hf]
  · have hm := keys_members_ne hf
    have hb : (k.members == "") = false := by simpa using hm
    simp only [withMembers, hb, Bool.false_eq_true, if_false]
    cases ex with
    | none => simp only [hm, if_false]; exact ⟨hf, by simp [Keys.members, hf]⟩
    | some e => simp only [hm, if_false]; exact ⟨hf, by simp [Keys.members, hf]⟩

theorem withMembers_isNone {ex : Option Extra} {k : Keys} (h : (withMembers ex k).isNone = true) :
    ex = none ∧ k.foreign = [] := by
  unfold withMembers at h
  split at h
  · rename_i hk
    simp only [beq_iff_eq] at hk
    refine ⟨by simpa using h, ?_⟩
    by_cases hf : k.foreign = []
    · exact hf
    · exact absurd hk (keys_members_ne hf)
  · cases ex <;> simp at h

end Geo

namespace Geo
theorem parseTyped_Point (o g k) : parseTyped o g k "Point" = parsePointK o g k := by simp [parseTyped]
theorem parseTyped_LineString (o g k) : parseTyped o g k "LineString" = parseLineStringK o g k := by simp [parseTyped]
theorem parseTyped_Polygon (o g k) : parseTyped o g k "Polygon" = parsePolygonK o g k := by simp [parseTyped]
theorem parseTyped_MultiPoint (o g k) : parseTyped o g k "MultiPoint" = parseMultiPointK o g k := by simp [parseTyped]
theorem parseTyped_MultiLineString (o g k) : parseTyped o g k "MultiLineString" = parseMultiLineStringK o g k := by simp [parseTyped]
theorem parseTyped_MultiPolygon (o g k) : parseTyped o g k "MultiPolygon" = parseMultiPolygonK o g k := by simp [parseTyped]
theorem parseTyped_GeometryCollection (o g k) : parseTyped o g k "GeometryCollection" = parseGeometryCollectionK o g k := by simp [parseTyped]
theorem parseTyped_FeatureCollection (o g k) : parseTyped o g k "FeatureCollection" = parseFeatureCollectionK o g k := by simp [parseTyped]
theorem parseTyped_Feature (o g k) : parseTyped o g k "Feature" = parseFeatureK o g k := by simp [parseTyped]
end Geo

namespace Geo
theorem withMembers_mk (ex : Option Extra) (t c gs g fs : Option JVal) (k : Keys) :
    withMembers ex { type := t, coordinates := c, geometries := gs, geometry := g, features := fs,
                     foreign := k.foreign } = withMembers ex k :=
  withMembers_congr ex rfl
end Geo

namespace Geo
/-- what the Circle branch of the Feature parser needs from a point-like base: token texts and
    the validity check the Point parser performed -/
def CentreOK (o : POpts) : Obj → Prop
  | .point pos _ => IsNumTok pos.xs.toList ∧ IsNumTok pos.ys.toList ∧
      (o.requireValid && !(pos.fin && pos.p.valid)) = false
  | .spoint pos => IsNumTok pos.xs.toList ∧ IsNumTok pos.ys.toList ∧
      (o.requireValid && !(pos.fin && pos.p.valid)) = false
  | _ => True

section
variable (vf : String → Rat) (kf : String → String)
include vf kf

theorem reparse_point (o : POpts) (f : Nat) (k : Keys) (x : Obj) (h : parsePointK o f k = .ok x)
    (hc : ∀ v, k.coordinates = some v → v.DocOK) (hfd : DocOKM k.foreign)
    (hns : ∀ m ∈ k.foreign, isSpecialKey m.2.1 = false) (hfin : AllFin x) :
    ∃ v, Written x v ∧ CentreOK o x ∧ ∀ g, parse o (g + 1) v = .ok x := by
  unfold parsePointK at h
  cases hco : k.coordinates with
  | none => simp [hco] at h
  | some rc =>
    simp only [hco] at h
    by_cases ha : rc.isArray = true
    · simp only [ha, Bool.not_true, Bool.false_eq_true, if_false] at h
      cases hp : parsePointCoords rc with
      | error e => simp [hp] at h
      | ok res =>
        obtain ⟨pos, ex0⟩ := res
        simp only [hp] at h
        generalize hob : (if ((withMembers ex0 k).isNone && o.allowSimplePoints) = true then Obj.spoint pos
                else Obj.point pos (withMembers ex0 k)) = ob at h
        by_cases hvalid : (o.requireValid && !ob.valid) = true
        · rw [if_pos hvalid] at h; cases h
        · rw [if_neg hvalid, Except.ok.injEq] at h
          subst h
          have h := hob
          have hd := hc rc hco
          -- finiteness of pos / ex0
          have hfin' : pos.fin = true ∧ ExFin ex0 := by
            rw [← h] at hfin
            split at hfin
            · rename_i hsp
              simp only [Bool.and_eq_true] at hsp
              exact ⟨hfin, by rw [(withMembers_isNone hsp.1).1]; trivial⟩
            · exact ⟨hfin.1, ExFin_withMembers hfin.2⟩
          obtain ⟨ts, hl, rfl, htok, hx, hy⟩ := parsePointCoords_fwd hp hd hfin'.1 hfin'.2
          have hexm : exMembers' (pointEx ts) = "" := by unfold pointEx; split <;> rfl
          have hposV : ∀ ex', (∀ i, extrasAt ex' i = extrasAt (pointEx ts) i) →
              PosV pos ex' 0 (posNode vf kf pos ts) := fun ex' he =>
            posV_posNode vf kf hx hy (by rw [he, extrasAt_pointEx]) htok
          refine ⟨mkObj "Point" "coordinates" (posNode vf kf pos ts) k.foreign, ?w, ?c, ?r⟩
          case c =>
            rw [← h]
            have hv : (o.requireValid && !(pos.fin && pos.p.valid)) = false := by
              rw [← h] at hvalid
              split at hvalid <;> simpa [Obj.valid] using hvalid
            split <;> exact ⟨hx, hy, hv⟩
          · rw [← h]
            split
            · rename_i hsp
              simp only [Bool.and_eq_true] at hsp
              obtain ⟨hex0, hfor⟩ := withMembers_isNone hsp.1
              rw [hfor]
              refine ⟨_, hposV none (fun i => by rw [hex0]), rfl⟩
            · exact ⟨_, _, hposV _ (extrasAt_withMembers _ _), membersV_withMembers hexm hfd, rfl⟩
          · intro g
            rw [parse_mkObj_coords o g "Point" _ _ hns]
            rw [parseTyped_Point]
            unfold parsePointK
            simp only [posNode, JVal.isArray, Bool.not_true, Bool.false_eq_true, if_false]
            have := parsePointCoords_nodes vf kf pos ts hl hfin'.1
            simp only [posNode] at this
            rw [this]
            simp only
            simp only [withMembers_mk, h, hvalid]
            rfl
    · simp [ha] at h
end
end Geo

namespace Geo

def centreOf : Obj → Option Pos
  | .point pos _ => some pos
  | .spoint pos => some pos
  | _ => none

def isCircleProps (fm : List Member) : Bool :=
  match ((JVal.obj fm).get "properties").bind (fun p => p.get "type") with
  | some (.str _ "Circle") => true
  | _ => false

/-- the part of the Feature parser after the geometry has been parsed -/
def featureOf (o : POpts) (k : Keys) (base : Obj) : Except PErr Obj :=
      let ex := withMembers none k
      let centre : Option Pos := match base with
        | .point pos _ => some pos
        | .spoint pos => some pos
        | _ => none
      match centre, ex with
      | some c, some _ =>
        let props := (JVal.obj k.foreign).get "properties"
        let ptype := props.bind (fun p => p.get "type")
        if !o.disableCircle && (match ptype with | some (.str _ "Circle") => true | _ => false) then
          let radius := props.bind (fun p => p.get "radius")
          let units := strOf (props.bind (fun p => p.get "radius_units"))
          let rtexts : Option (String × String) := match radius with
            | some (.num fin _ canon canonK _) => if fin then some (canon, canonK) else some ("null", "null")
            | some .tru => some ("1", "1000")
            | some (.str _ _) => none
            | _ => some ("0", "0")
          match rtexts with
          | none => .error .unmodelled
          | some (m, km) =>
            if units == "" || units == "m" then .ok (.circle c m)
            else if units == "km" then .ok (.circle c km)
            else .error .circleUnits
        else .ok (.feature base ex)
      | _, _ => .ok (.feature base ex)

theorem parseFeatureK_eq (o : POpts) (f : Nat) (k : Keys) :
    parseFeatureK o f k =
      match k.geometry with
      | none => .error .geometryMissing
      | some g =>
        match parse o f g with
        | .error e => .error e
        | .ok base => featureOf o k base := rfl

theorem featureOf_feature {o : POpts} {k : Keys} {base : Obj}
    (h : centreOf base = none ∨ withMembers none k = none ∨
      (!o.disableCircle && isCircleProps k.foreign) = false) :
    featureOf o k base = .ok (.feature base (withMembers none k)) := by
  unfold featureOf
  cases hex : withMembers none k with
  | none => cases base <;> rfl
  | some e =>
    cases base with
    | point pos ex =>
      rcases h with h | h | h
      · cases h
      · rw [hex] at h; cases h
      · simp only [isCircleProps] at h
        simp only [h, Bool.false_eq_true, if_false]
    | spoint pos =>
      rcases h with h | h | h
      · cases h
      · rw [hex] at h; cases h
      · simp only [isCircleProps] at h
        simp only [h, Bool.false_eq_true, if_false]
    | _ => rfl

theorem JVal.DocOK.get {v w : JVal} {key : String} (h : v.DocOK) (hg : v.get key = some w) : w.DocOK := by
  cases v with
  | obj ms =>
    simp only [JVal.get, Option.map_eq_some_iff] at hg
    obtain ⟨m, hm, rfl⟩ := hg
    simp only [JVal.DocOK] at h
    exact (docOKM_iff.mp h m (List.mem_of_find?_eq_some hm)).2
  | _ => simp [JVal.get] at hg

/-- a radius text is "null" or a number token -/
theorem featureOf_cases {o : POpts} {k : Keys} {base x : Obj} (h : featureOf o k base = .ok x)
    (hd : DocOKM k.foreign) :
    (x = .feature base (withMembers none k) ∧ (centreOf base = none ∨ withMembers none k = none ∨
        (!o.disableCircle && isCircleProps k.foreign) = false)) ∨
    (∃ c m, x = .circle c m ∧ centreOf base = some c ∧ o.disableCircle = false ∧
      (m = "null" ∨ IsNumTok m.toList)) := by
  by_cases hc : centreOf base = none ∨ withMembers none k = none ∨
      (!o.disableCircle && isCircleProps k.foreign) = false
  · rw [featureOf_feature hc] at h
    cases h
    exact .inl ⟨rfl, hc⟩
  · right
    simp only [not_or] at hc
    obtain ⟨hc1, hc2, hc3⟩ := hc
    obtain ⟨c, hcen⟩ := Option.ne_none_iff_exists'.mp hc1
    obtain ⟨e, hex⟩ := Option.ne_none_iff_exists'.mp hc2
    simp only [Bool.not_eq_false, Bool.and_eq_true, Bool.not_eq_true'] at hc3
    have hcirc := hc3.2
    simp only [isCircleProps] at hcirc
    -- the radius node is well-formed
    have hrad : ∀ r, ((JVal.obj k.foreign).get "properties").bind (fun p => p.get "radius") = some r → r.DocOK := by
      intro r hr
      simp only [Option.bind_eq_some_iff] at hr
      obtain ⟨p, hp, hr⟩ := hr
      exact (JVal.DocOK.get (by simpa [JVal.DocOK] using hd) hp).get hr
    have hred : (match ((JVal.obj k.foreign).get "properties").bind (fun p => p.get "radius") with
            | some (.num fin _ canon canonK _) => if fin then some (canon, canonK) else some ("null", "null")
            | some .tru => some ("1", "1000")
            | some (.str _ _) => (none : Option (String × String))
            | _ => some ("0", "0")) = none ∨ True := .inr trivial
    clear hred
    have h' : (match (match ((JVal.obj k.foreign).get "properties").bind (fun p => p.get "radius") with
            | some (.num fin _ canon canonK _) => if fin then some (canon, canonK) else some ("null", "null")
            | some .tru => some ("1", "1000")
            | some (.str _ _) => (none : Option (String × String))
            | _ => some ("0", "0")) with
          | none => Except.error PErr.unmodelled
          | some (m, km) =>
            if (strOf (((JVal.obj k.foreign).get "properties").bind fun p => p.get "radius_units") == "" ||
              strOf (((JVal.obj k.foreign).get "properties").bind fun p => p.get "radius_units") == "m") = true
            then Except.ok (Obj.circle c m)
            else if (strOf (((JVal.obj k.foreign).get "properties").bind fun p => p.get "radius_units") == "km") = true
              then Except.ok (Obj.circle c km) else Except.error PErr.circleUnits) = Except.ok x := by
      unfold featureOf at h
      cases base with
      | point pos ex =>
        simp only [centreOf, Option.some.injEq] at hcen; subst hcen
        simpa only [hex, hc3.1, hcirc, Bool.not_false, Bool.and_self, if_true] using h
      | spoint pos =>
        simp only [centreOf, Option.some.injEq] at hcen; subst hcen
        simpa only [hex, hc3.1, hcirc, Bool.not_false, Bool.and_self, if_true] using h
      | _ => simp [centreOf] at hcen
    clear h
    have h := h'
    clear h'
    generalize hr : ((JVal.obj k.foreign).get "properties").bind (fun p => p.get "radius") = rad at h hrad
    have key : ∀ m km, (m = "null" ∨ IsNumTok m.toList) → (km = "null" ∨ IsNumTok km.toList) →
        (if (strOf (((JVal.obj k.foreign).get "properties").bind fun p => p.get "radius_units") == "" ||
              strOf (((JVal.obj k.foreign).get "properties").bind fun p => p.get "radius_units") == "m") = true
          then Except.ok (Obj.circle c m)
          else if (strOf (((JVal.obj k.foreign).get "properties").bind fun p => p.get "radius_units") == "km") = true
            then Except.ok (Obj.circle c km) else Except.error PErr.circleUnits) = Except.ok x →
        ∃ c' m', x = .circle c' m' ∧ some c = some c' ∧ o.disableCircle = false ∧
          (m' = "null" ∨ IsNumTok m'.toList) := by
      intro m km hm hkm hx
      split at hx
      · cases hx; exact ⟨c, m, rfl, rfl, hc3.1, hm⟩
      · split at hx
        · cases hx; exact ⟨c, km, rfl, rfl, hc3.1, hkm⟩
        · cases hx
    have tok1 : IsNumTok "1".toList := numTokB_sound (by decide)
    have tok1000 : IsNumTok "1000".toList := numTokB_sound (by decide)
    have tok0 : IsNumTok "0".toList := numTokB_sound (by decide)
    rw [hcen]
    cases rad with
    | none => exact key "0" "0" (.inr tok0) (.inr tok0) h
    | some r =>
      have hrd := hrad r rfl
      cases r with
      | num fin val canon canonK raw =>
        cases fin with
        | true =>
          simp only [JVal.DocOK] at hrd
          exact key canon canonK (.inr (hrd.2 trivial).1) (.inr (hrd.2 trivial).2) h
        | false => exact key "null" "null" (.inl rfl) (.inl rfl) h
      | tru => exact key "1" "1000" (.inr tok1) (.inr tok1000) h
      | str _ _ => simp at h
      | null => exact key "0" "0" (.inr tok0) (.inr tok0) h
      | fls => exact key "0" "0" (.inr tok0) (.inr tok0) h
      | arr _ => exact key "0" "0" (.inr tok0) (.inr tok0) h
      | obj _ => exact key "0" "0" (.inr tok0) (.inr tok0) h

end Geo

namespace Geo

/-- the members the Feature writer emits after `"geometry"` for a parsed Feature -/
def featFm (k : Keys) : List Member :=
  k.foreign ++ (if needProps (withMembers none k) true then [propsM] else [])

theorem needProps_feature (k : Keys) : needProps (withMembers none k) true = !k.hasProps := by
  by_cases hf : k.foreign = []
  · simp [withMembers, keys_members_eq hf, needProps, Keys.hasProps, hf]
  · have hm := keys_members_ne hf
    have hb : (k.members == "") = false := by simpa using hm
    have hb' : (k.members != "") = true := by simpa using hm
    simp [withMembers, hb, needProps, hb']

theorem membersV_feature {k : Keys} (hd : DocOKM k.foreign) :
    MembersV (withMembers none k) true (featFm k) := by
  refine ⟨k.foreign, docOKM_tokOK hd, ?_, rfl⟩
  by_cases hf : k.foreign = []
  · simp [withMembers, keys_members_eq hf, hf]
  · have hm := keys_members_ne hf
    have hb : (k.members == "") = false := by simpa using hm
    simp only [withMembers, hb, Bool.false_eq_true, if_false, hm]
    exact ⟨hf, by simp [Keys.members, hf]⟩

theorem featFm_hasProps (k : Keys) : (featFm k).any (fun m => m.2.1 == "properties") = true := by
  unfold featFm
  rw [needProps_feature]
  cases hp : k.hasProps with
  | true => simpa [Keys.hasProps] using hp
  | false => simp [propsM, mem]

end Geo

namespace Geo
section
variable (vf : String → Rat) (kf : String → String)
include vf kf

theorem reparse_lineString (o : POpts) (f : Nat) (k : Keys) (x : Obj) (h : parseLineStringK o f k = .ok x)
    (hc : ∀ v, k.coordinates = some v → v.DocOK) (hfd : DocOKM k.foreign)
    (hns : ∀ m ∈ k.foreign, isSpecialKey m.2.1 = false) (hfin : AllFin x) :
    ∃ v, Written x v ∧ ∀ g, parse o (g + 1) v = .ok x := by
  unfold parseLineStringK at h
  cases hco : k.coordinates with
  | none => simp [hco, reqArray] at h
  | some rc =>
    simp only [hco, reqArray] at h
    by_cases ha : rc.isArray = true
    · simp only [ha, if_true] at h
      cases hp : parseLineCoords rc with
      | error e => simp [hp] at h
      | ok res =>
        obtain ⟨ps, ex0⟩ := res
        simp only [hp] at h
        by_cases hlen : ps.length < 2
        · rw [if_pos hlen] at h; cases h
        · rw [if_neg hlen] at h
          by_cases hvalid : (o.requireValid && !(Obj.lineString (mkLine o ps) ps (withMembers ex0 k)).valid) = true
          · rw [if_pos hvalid] at h; cases h
          · rw [if_neg hvalid, Except.ok.injEq] at h
            subst h
            obtain ⟨hpf, hexf⟩ := hfin
            have hex0 := ExFin_withMembers hexf
            obtain ⟨hT, htok⟩ := parseLineCoords_fwd hp (hc rc hco) hex0
            have hexm : exMembers' ex0 = "" := by
              cases ex0 with
              | none => rfl
              | some e => exact hT.2.2.2.1
            refine ⟨mkObj "LineString" "coordinates" (.arr (seriesNodes vf kf ex0 ps 0)) k.foreign, ?_, ?_⟩
            · exact ⟨_, _, ⟨_, seriesV_nodes vf kf hT (extrasAt_withMembers ex0 k) ps 0
                (fun p hp' => ⟨hpf p hp', htok p hp'⟩) (by omega), rfl⟩,
                membersV_withMembers hexm hfd, rfl⟩
            · intro g
              rw [parse_mkObj_coords o g "LineString" _ _ hns, parseTyped_LineString]
              unfold parseLineStringK
              simp only [reqArray, JVal.isArray, if_true]
              rw [parseLineCoords_nodes vf kf hT hpf]
              simp only [withMembers_mk, hlen, hvalid, if_false]
              rfl
    · simp [ha] at h
end
end Geo
