/-
  GeoProofs.Glue.IndexGlueRBasic — the small R-tree functions of the generated index
  (`IGen.rRect_expand / contains / intersects / largestAxis / recalc / chooseLeastEnlargement`,
  `IGen.appendFloat`, translation of geometry/rtree.go) compute the hand model's
  `GBox.expand / contains / meets`, the `axisY` of `splitEntries`, `recalcBoxes`, `chooseLeast`
  and the coordinate encoder `encOf`.
-/
import GeoProofs.Glue.IndexGlueR

namespace Geo.IGlue
open Geo Geo.IGen
open scoped Geo.KNum

variable {F S SR D : Type} [KNum F] [Carrier F] [Compat F] (ops : Ops F S SR D)

/-! ## expand, contains, intersects, largestAxis -/

theorem expand_eq (r b : IGen.RRect F) :
    rbox (IGen.rRect_expand ops r b) = (rbox r).expand (rbox b) ∧
      (IGen.rRect_expand ops r b).data = r.data := by
  cases r with
  | mk rd r0 r1 r2 r3 =>
  cases b with
  | mk bd b0 b1 b2 b3 =>
  simp only [IGen.rRect_expand, rbox, GBox.expand, Compat.lt, KNum.gt, IGen.RRect.min0,
    IGen.RRect.min1, IGen.RRect.max0, IGen.RRect.max1, IGen.RRect.data]
  by_cases h0 : (b0 <ₖ r0) = true <;> by_cases h1 : (b1 <ₖ r1) = true <;>
    by_cases h2 : (r2 <ₖ b2) = true <;> by_cases h3 : (r3 <ₖ b3) = true <;>
    simp [h0, h1, h2, h3]

theorem contains_eq (r b : IGen.RRect F) :
    IGen.rRect_contains ops r b = (rbox r).contains (rbox b) := by
  cases r with
  | mk rd r0 r1 r2 r3 =>
  cases b with
  | mk bd b0 b1 b2 b3 =>
  simp only [IGen.rRect_contains, rbox, GBox.contains, Compat.lt, KNum.gt, IGen.RRect.min0,
    IGen.RRect.min1, IGen.RRect.max0, IGen.RRect.max1]
  by_cases h0 : (b0 <ₖ r0) = true <;> by_cases h1 : (b1 <ₖ r1) = true <;>
    by_cases h2 : (r2 <ₖ b2) = true <;> by_cases h3 : (r3 <ₖ b3) = true <;>
    simp [h0, h1, h2, h3]

theorem intersects_eq (r b : IGen.RRect F) :
    IGen.rRect_intersects ops r b = (rbox r).meets (rbox b) := by
  cases r with
  | mk rd r0 r1 r2 r3 =>
  cases b with
  | mk bd b0 b1 b2 b3 =>
  simp only [IGen.rRect_intersects, rbox, GBox.meets, Compat.lt, KNum.gt, IGen.RRect.min0,
    IGen.RRect.min1, IGen.RRect.max0, IGen.RRect.max1]
  by_cases h0 : (r2 <ₖ b0) = true <;> by_cases h1 : (b2 <ₖ r0) = true <;>
    by_cases h2 : (r3 <ₖ b1) = true <;> by_cases h3 : (b3 <ₖ r1) = true <;>
    simp [h0, h1, h2, h3]

theorem largestAxis_eq (r : IGen.RRect F) :
    (IGen.rRect_largestAxis ops r).1 =
      if Carrier.lt (Carrier.sub r.max0 r.min0) (Carrier.sub r.max1 r.min1) then 1 else 0 := by
  cases r with
  | mk rd r0 r1 r2 r3 =>
  simp only [IGen.rRect_largestAxis, Compat.lt, Compat.sub, KNum.gt, IGen.RRect.min0,
    IGen.RRect.min1, IGen.RRect.max0, IGen.RRect.max1]
  by_cases h : ((r2 -ₖ r0) <ₖ (r3 -ₖ r1)) = true <;> simp [h]

/-! ## appendFloat -/

theorem putU64_zero8 (v : Nat) : putU64 (Array.replicate 8 0) 0 v = (leBytes v 8).toArray := by
  apply Array.ext
  · simp [putU64, leBytes]
  · intro i h1 h2
    have h8 : i < 8 := by simpa [leBytes] using h2
    have : i = 0 ∨ i = 1 ∨ i = 2 ∨ i = 3 ∨ i = 4 ∨ i = 5 ∨ i = 6 ∨ i = 7 := by omega
    rcases this with rfl | rfl | rfl | rfl | rfl | rfl | rfl | rfl <;> simp [putU64, leBytes]

omit [Compat F] in
theorem appendFloat_eq {S SR : Type} (segAt : SR → Int → S) (segRect : S → Rect F) (f64 : Nat → F)
    (bits : F → Nat) (isNil : List F → Bool) (dst : Array Nat) (x : F) :
    IGen.appendFloat (aOpsR segAt segRect f64 bits isNil) dst x
      = some (dst ++ (encOf bits x).toArray) := by
  simp [IGen.appendFloat, aOpsR, encOf, putU64_zero8]

/-! ## counted loops over a slot array -/

theorem loopM_range'_slots {α σ : Type} (f : σ → α → σ) (body : Int → σ → Option σ) (xs : List α) :
    ∀ (n l : Nat) (s : σ), l + n ≤ xs.length →
      (∀ k, l ≤ k → k < l + n → ∀ (h : k < xs.length) s, body (Int.ofNat k) s = some (f s xs[k])) →
      loopM ((List.range' l n).map Int.ofNat) s body = some (((xs.drop l).take n).foldl f s) := by
  intro n
  induction n with
  | zero => intro l s _ _; simp [loopM]
  | succ n ih =>
    intro l s hl hb
    have hlt : l < xs.length := by omega
    rw [List.range'_succ, List.map_cons]
    simp only [loopM]
    rw [hb l (Nat.le_refl _) (by omega) hlt s]
    simp only []
    rw [ih (l + 1) (f s xs[l]) (by omega) (fun k h1 h2 h s => hb k (by omega) (by omega) h s)]
    rw [List.drop_eq_getElem_cons hlt, List.take_succ_cons, List.foldl_cons]

theorem intRange_eq_range' (lo hi : Int) (h0 : 0 ≤ lo) :
    intRange lo hi = (List.range' lo.toNat (hi.toNat - lo.toNat)).map Int.ofNat := by
  unfold intRange
  rw [List.range'_eq_map_range, List.map_map]
  have hn : (hi - lo).toNat = hi.toNat - lo.toNat := by omega
  rw [hn]
  apply List.map_congr_left
  intro k _
  simp only [Function.comp, Int.ofNat_eq_natCast]
  omega

/-- `for i := lo; i < hi; i++ { s = f(s, xs[i]) }` is a fold over `xs[lo:hi]` (and never panics) -/
theorem loopM_slots {α σ : Type} (f : σ → α → σ) (body : Int → σ → Option σ) (xs : List α)
    (lo hi : Int) (s : σ) (h0 : 0 ≤ lo) (hh : hi.toNat ≤ xs.length)
    (hb : ∀ k (h : k < xs.length) s, body (Int.ofNat k) s = some (f s xs[k])) :
    loopM (intRange lo hi) s body
      = some (((xs.drop lo.toNat).take (hi.toNat - lo.toNat)).foldl f s) := by
  rw [intRange_eq_range' lo hi h0]
  by_cases hle : lo.toNat ≤ hi.toNat
  · exact loopM_range'_slots f body xs _ _ s (by omega) (fun k _ _ h s => hb k h s)
  · have : hi.toNat - lo.toNat = 0 := by omega
    rw [this]; simp [loopM]

theorem listAt_ofNat {α : Type} (xs : List α) (k : Nat) (h : k < xs.length) :
    listAt xs (Int.ofNat k) = some xs[k] := by
  simp [listAt, h]

/-! ## recalc -/

/-- the loop state of `recalc` (the fields of the receiver) -/
def toT (r : IGen.RRect F) : Dyn F × F × F × F × F := (r.data, r.min0, r.min1, r.max0, r.max1)

def ofT (t : Dyn F × F × F × F × F) : IGen.RRect F := .mk t.1 t.2.1 t.2.2.1 t.2.2.2.1 t.2.2.2.2

omit [KNum F] [Carrier F] [Compat F] in
theorem ofT_toT (r : IGen.RRect F) : ofT (toT r) = r := by cases r; rfl

theorem foldl_expand_toT (l : List (IGen.RRect F)) (r : IGen.RRect F) :
    l.foldl (fun s e => toT (IGen.rRect_expand ops (ofT s) e)) (toT r)
      = toT (l.foldl (IGen.rRect_expand ops) r) := by
  induction l generalizing r with
  | nil => rfl
  | cons e l ih => simp only [List.foldl_cons, ofT_toT, ih]

theorem foldl_expand_eq (l : List (IGen.RRect F)) (r : IGen.RRect F) :
    rbox (l.foldl (IGen.rRect_expand ops) r) = (l.map rbox).foldl GBox.expand (rbox r) ∧
      (l.foldl (IGen.rRect_expand ops) r).data = r.data := by
  induction l generalizing r with
  | nil => exact ⟨rfl, rfl⟩
  | cons e l ih =>
    simp only [List.foldl_cons, List.map_cons]
    rw [(ih _).1, (ih _).2, (expand_eq ops r e).1, (expand_eq ops r e).2]
    exact ⟨rfl, rfl⟩

theorem recalc_eq (r : IGen.RRect F) (nd : IGen.RNode F) (h : r.data = .rNode nd)
    (hs : SlotsOK nd) (hc : 1 ≤ nd.count) :
    ∃ r', IGen.rRect_recalc ops r = some r' ∧ r'.data = r.data ∧
      rbox r' = recalcBoxes ((usedSlots nd).map rbox) (rbox r) := by
  cases r with
  | mk rd r0 r1 r2 r3 =>
  simp only [IGen.RRect.data] at h
  subst h
  obtain ⟨hlen, hc0, hc17⟩ := hs
  have h0 : 0 < nd.rects.length := by omega
  unfold IGen.rRect_recalc
  simp only [Option.bind_eq_bind, Option.bind_some, bind, pure, Dyn.asRNode]
  have e0 : listAt nd.rects 0 = some nd.rects[0] := listAt_ofNat nd.rects 0 h0
  simp only [e0, Option.bind_some]
  trace_state
  sorry

end Geo.IGlue
