/-
  GeoProofs.CoversSpec.Defs — vocabulary of the adequacy proof of `Spec.covers`:
  segments that avoid an edge list, polygonal connection in the complement of an edge list,
  "p sees z" (the segment pz touches the edge list only at z), open edge points.
-/
import GeoProofs.ContainsConvex.Simple

namespace Geo
namespace CS
open Jordan

/-- the closed segment `pq` misses every edge of `es` -/
def Avoid (es : List (Pt × Pt)) (p q : Pt) : Prop :=
  ∀ e ∈ es, Spec.segsMeet e.1 e.2 p q = false

/-- `x` lies on no edge of `es` -/
def Off (es : List (Pt × Pt)) (x : Pt) : Prop := ∀ e ∈ es, ¬ OnSeg e.1 e.2 x

/-- polygonal connection inside the complement of `es` -/
inductive Conn (es : List (Pt × Pt)) : Pt → Pt → Prop
  | step {p q : Pt} : Avoid es p q → Conn es p q
  | trans {p q r : Pt} : Conn es p q → Conn es q r → Conn es p r

/-- the segment `qz` touches `es` at most at `z` -/
def Sees (es : List (Pt × Pt)) (q z : Pt) : Prop :=
  ∀ e ∈ es, ∀ x, OnSeg q z x → OnSeg e.1 e.2 x → x = z

/-- `z` is a point of the segment `ab` other than its ends -/
def OpenOn (a b z : Pt) : Prop := OnSeg a b z ∧ z ≠ a ∧ z ≠ b

/-- L∞-closeness -/
def Near (ε : Rat) (x y : Pt) : Prop := |x.x - y.x| ≤ ε ∧ |x.y - y.y| ≤ ε

/-- on an open segment that every edge of `es` either contains entirely or misses entirely,
    `m` is constant -/
def PieceConst (m : Pt → Bool) (es : List (Pt × Pt)) : Prop :=
  ∀ x y : Pt, x ≠ y →
    (∀ e ∈ es, (∀ z, OpenOn x y z → OnSeg e.1 e.2 z) ∨ (∀ z, OpenOn x y z → ¬ OnSeg e.1 e.2 z)) →
    ∀ z w, OpenOn x y z → OpenOn x y w → m z = m w

/-- `Spec.segInside` decides "the whole closed segment consists of members" -/
def SegInsideOK (m : Pt → Bool) (es : List (Pt × Pt)) : Prop :=
  ∀ p q, Spec.segInside m es p q = true ↔ ∀ x, OnSeg p q x → m x = true

/-- point-set meaning of "b is covered by a": b occupies some point and every point of b is a
    point of a -/
def Covers (a b : Spec.Shape) : Prop :=
  (∃ p, b.member p = true) ∧ ∀ p, b.member p = true → a.member p = true

theorem avoid_iff (es : List (Pt × Pt)) (p q : Pt) :
    Avoid es p q ↔ ∀ e ∈ es, ∀ x, OnSeg p q x → ¬ OnSeg e.1 e.2 x := by
  unfold Avoid
  constructor
  · intro h e he x hx hex
    have := h e he
    rw [segsMeet_eq_false_iff] at this
    exact this ⟨x, hex, hx⟩
  · intro h e he
    rw [segsMeet_eq_false_iff]
    rintro ⟨x, hex, hx⟩
    exact h e he x hx hex

theorem off_iff (es : List (Pt × Pt)) (x : Pt) : Off es x ↔ Spec.onBoundary es x = false := by
  unfold Off Spec.onBoundary
  rw [List.any_eq_false]
  constructor
  · intro h e he hc; exact h e he ((spec_onSeg_iff _ _ _).1 hc)
  · intro h e he hc; exact h e he ((spec_onSeg_iff _ _ _).2 hc)

theorem Avoid.symm {es : List (Pt × Pt)} {p q : Pt} (h : Avoid es p q) : Avoid es q p := by
  rw [avoid_iff] at h ⊢
  intro e he x hx
  exact h e he x ((K.onSeg_symm _ _ _).1 hx)

theorem Conn.symm {es : List (Pt × Pt)} {p q : Pt} (h : Conn es p q) : Conn es q p := by
  induction h with
  | step h => exact Conn.step h.symm
  | trans _ _ ih1 ih2 => exact Conn.trans ih2 ih1

/-- a property carried along avoiding segments is carried along connections -/
theorem Conn.carry {es : List (Pt × Pt)} (Q : Pt → Prop)
    (hQ : ∀ x y, Avoid es x y → Q x → Q y) {p q : Pt} (h : Conn es p q) : Q p → Q q := by
  induction h with
  | step h => exact hQ _ _ h
  | trans _ _ ih1 ih2 => exact fun hp => ih2 (ih1 hp)

end CS
end Geo
