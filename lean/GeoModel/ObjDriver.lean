/-
  GeoModel.ObjDriver — line protocol for the object / JSON layer (execution only: the AST
  token reader below is driver code, not part of the proved model).
-/
import GeoModel.Driver
import GeoModel.Write
namespace Geo
namespace Driver

structure World where
  g : Env := {}
  o : Std.HashMap String Obj := {}

def hexVal (c : Char) : Nat :=
  if '0' ≤ c && c ≤ '9' then c.toNat - '0'.toNat
  else if 'a' ≤ c && c ≤ 'f' then c.toNat - 'a'.toNat + 10
  else if 'A' ≤ c && c ≤ 'F' then c.toNat - 'A'.toNat + 10 else 0

def unhexBytes (s : String) : ByteArray :=
  if s == "-" then ByteArray.empty else
  let rec go : List Char → ByteArray → ByteArray
    | a :: b :: rest, acc => go rest (acc.push (UInt8.ofNat (hexVal a * 16 + hexVal b)))
    | _, acc => acc
  go s.toList ByteArray.empty

def unhexS (s : String) : String :=
  match String.fromUTF8? (unhexBytes s) with
  | some t => t
  | none => "�"   -- not valid UTF-8: cannot occur for json.Valid input re-encoded by the harness

def hexOfString (s : String) : String :=
  if s.isEmpty then "-" else String.join (s.toUTF8.toList.map (fun b => hexByte b.toNat))

def parseRat (s : String) : Option Rat :=
  match s.splitOn "/" with
  | [n, d] => do
    let n ← n.toInt?
    let d ← d.toNat?
    if d == 0 then none else pure ((n : Rat) / (d : Rat))
  | _ => none

/-- AST token reader -/
partial def readVal : List String → Option (JVal × List String)
  | "z" :: r => some (.null, r)
  | "t" :: r => some (.tru, r)
  | "f" :: r => some (.fls, r)
  | "[" :: r =>
    let rec items (r : List String) (acc : List JVal) : Option (List JVal × List String) :=
      match r with
      | "]" :: r' => some (acc.reverse, r')
      | _ => match readVal r with
        | some (v, r') => items r' (v :: acc)
        | none => none
    (items r []).map (fun (vs, r') => (.arr vs, r'))
  | "{" :: r =>
    let rec members (r : List String) (acc : List (String × String × JVal)) : Option (List (String × String × JVal) × List String) :=
      match r with
      | "}" :: r' => some (acc.reverse, r')
      | k :: r' =>
        match k.splitOn ":" with
        | ["k", raw, dec] =>
          match readVal r' with
          | some (v, r'') => members r'' ((unhexS raw, unhexS dec, v) :: acc)
          | none => none
        | _ => none
      | [] => none
    (members r []).map (fun (ms, r') => (.obj ms, r'))
  | t :: r =>
    match t.splitOn ":" with
    | ["s", raw, dec] => some (.str (unhexS raw) (unhexS dec), r)
    | [nf, rat, canon, canonK, raw] =>
      match parseRat rat with
      | some q => some (.num (nf == "n1") q (unhexS canon) (unhexS canonK) (unhexS raw), r)
      | none => none
    | _ => none
  | [] => none

def readAST (toks : List String) : Option JVal :=
  match readVal toks with
  | some (v, []) => some v
  | _ => none

def parseOptsS (s : String) : Option POpts :=
  match (s.splitOn ",").mapM String.toNat? with
  | some [ic, ig, k, rv, sp, dc, ar] =>
    some { indexChildren := ic, indexGeometry := ig, indexKind := kindOf k,
           requireValid := rv != 0, allowSimplePoints := sp != 0, disableCircle := dc != 0, allowRects := ar != 0 }
  | _ => none

def errName : PErr → String
  | .dataInvalid => "dataInvalid" | .typeInvalid => "typeInvalid" | .typeMissing => "typeMissing"
  | .typeUnknown => "typeUnknown" | .coordsInvalid => "coordsInvalid" | .coordsMissing => "coordsMissing"
  | .geometryMissing => "geometryMissing" | .featuresMissing => "featuresMissing" | .featuresInvalid => "featuresInvalid"
  | .geometriesMissing => "geometriesMissing" | .geometriesInvalid => "geometriesInvalid" | .circleUnits => "circleUnits"
  | .unmodelled => "unmodelled"

def kindName : Obj → String
  | .point _ _ => "Point" | .spoint _ => "SimplePoint" | .lineString _ _ _ => "LineString"
  | .polygon _ _ _ => "Polygon" | .rectO _ _ _ => "Rect" | .circle _ _ => "Circle"
  | .coll k _ _ _ => k.typeName | .feature _ _ => "Feature"

/-- decimal text of a dyadic rational (what AppendFloat(f,'f',-1,64) prints on regime E) -/
def ratDecimal (q : Rat) : String :=
  let neg := q < 0
  let n := q.num.natAbs
  let d := q.den
  let k := Nat.log2 d
  let scaled := n * (10 ^ k / d)          -- n/d = scaled / 10^k
  let ip := scaled / 10 ^ k
  let fp := scaled % 10 ^ k
  let fs := toString fp
  let fs := String.ofList (List.replicate (k - fs.length) '0') ++ fs
  let fs := String.ofList (fs.toList.reverse.dropWhile (· == '0')).reverse
  let body := if fs.isEmpty || k == 0 then toString ip else toString ip ++ "." ++ fs
  if neg then "-" ++ body else body

def posOf (p : Pt) : Pos := ⟨p, true, ratDecimal p.x, ratDecimal p.y⟩

def hasCircle : Obj → Bool
  | .circle _ _ => true
  | .feature b _ => hasCircle b
  | .coll _ cs _ _ => cs.attach.any (fun ⟨c, _⟩ => hasCircle c)
  | _ => false

def allFinite : Obj → Bool
  | .point p _ => p.fin
  | .spoint p => p.fin
  | .lineString _ ps _ => ps.all (·.fin)
  | .polygon _ rs _ => rs.all (·.all (·.fin))
  | .rectO _ a b => a.fin && b.fin
  | .circle c _ => c.fin
  | .feature b _ => allFinite b
  | .coll _ cs _ _ => cs.attach.all (fun ⟨c, _⟩ => allFinite c)

/-- planar attributes/predicates are modelled only for circle-free, finite objects -/
def planar (o : Obj) : Bool := !hasCircle o && allFinite o

def defaultOpts : POpts := {}

def takeLine (toks : List String) : Option (IndexKind × Nat × List Pt × List String) := do
  let (k :: m :: n :: rest) := toks | none
  let k ← k.toInt?; let m ← m.toNat?; let n ← n.toNat?
  let coords ← parseInts (rest.take (2 * n))
  if coords.length != 2 * n then none
  pure (kindOf k, m, mkPts coords, rest.drop (2 * n))

partial def takeRingsS : Nat → List String → Option (List (List Pt) × List String)
  | 0, r => some ([], r)
  | k+1, n :: rest => do
    let n ← n.toNat?
    let coords ← parseInts (rest.take (2 * n))
    if coords.length != 2 * n then none
    let (more, r') ← takeRingsS k (rest.drop (2 * n))
    pure (mkPts coords :: more, r')
  | _, _ => none

def takePoly (toks : List String) : Option (IndexKind × Nat × List (List Pt) × List String) := do
  let (k :: m :: nr :: rest) := toks | none
  let k ← k.toInt?; let m ← m.toNat?; let nr ← nr.toNat?
  let (rings, r') ← takeRingsS nr rest
  pure (kindOf k, m, rings, r')

def mkLineObj (k : IndexKind) (m : Nat) (pts : List Pt) : Obj :=
  .lineString (mkSeries pts.toArray false k m) (pts.map posOf) none

def mkPolyObj (k : IndexKind) (m : Nat) (rings : List (List Pt)) : Obj :=
  match rings with
  | [] => .polygon ⟨none, []⟩ [] none
  | e :: hs => .polygon ⟨some (.ser (mkSeries e.toArray true k m)), hs.map (fun h => .ser (mkSeries h.toArray true k m))⟩
      (rings.map (·.map posOf)) none

partial def takeLines : Nat → List String → Option (List Obj × List String)
  | 0, r => some ([], r)
  | n+1, r => do
    let (k, m, pts, r') ← takeLine r
    let (more, r'') ← takeLines n r'
    pure (mkLineObj k m pts :: more, r'')

partial def takePolys : Nat → List String → Option (List Obj × List String)
  | 0, r => some ([], r)
  | n+1, r => do
    let (k, m, rings, r') ← takePoly r
    let (more, r'') ← takePolys n r'
    pure (mkPolyObj k m rings :: more, r'')

/-- NewFeature member sanitising (after the D8 fix); `ast` is the AST of the trimmed text -/
def featureExtra (trimmed : String) (ast : Option JVal) : Option Extra :=
  if trimmed == "" || trimmed == "{}" then none
  else match ast with
    | some (.obj ms) =>
      -- sjson.Delete(members, "feature"): the first such member
      let rec dropFirst : List (String × String × JVal) → List (String × String × JVal)
        | [] => []
        | m :: rest => if m.2.1 == "feature" then rest else m :: dropFirst rest
      let ms' := dropFirst ms
      let text := (JVal.obj ms').render
      if text == "{}" then none
      else some ⟨0, [], text, ms'.any (fun m => m.2.1 == "properties")⟩
    | _ => none

def onew (w : World) (ctor : String) (args : List String) : Option Obj :=
  match ctor with
  | "point" => do
    let [x, y] ← parseInts args | none
    pure (.point (posOf ⟨q16 x, q16 y⟩) none)
  | "spoint" => do
    let [x, y] ← parseInts args | none
    pure (.spoint (posOf ⟨q16 x, q16 y⟩))
  | "pointz" => do
    let [x, y, z] ← parseInts args | none
    pure (.point (posOf ⟨q16 x, q16 y⟩) (some ⟨1, [ratDecimal (q16 z)], "", false⟩))
  | "rect" => do
    let [a, b, c, d] ← parseInts args | none
    let lo : Pt := ⟨q16 a, q16 b⟩
    let hi : Pt := ⟨q16 c, q16 d⟩
    pure (.rectO ⟨lo, hi⟩ (posOf lo) (posOf hi))
  | "line" => do
    let (k, m, pts, _) ← takeLine args
    pure (mkLineObj k m pts)
  | "polygon" => do
    let (k, m, rings, _) ← takePoly args
    pure (mkPolyObj k m rings)
  | "mp" => do
    let (n :: rest) := args | none
    let n ← n.toNat?
    let coords ← parseInts rest
    let pts := mkPts coords
    if pts.length != n then none
    pure (mkColl defaultOpts .multiPoint (pts.map (fun p => Obj.point (posOf p) none)) none)
  | "mls" => do
    let (n :: rest) := args | none
    let n ← n.toNat?
    let (ls, _) ← takeLines n rest
    pure (mkColl defaultOpts .multiLineString ls none)
  | "mpg" => do
    let (n :: rest) := args | none
    let n ← n.toNat?
    let (ps, _) ← takePolys n rest
    pure (mkColl defaultOpts .multiPolygon ps none)
  | "gc" => do
    let (_ :: ids) := args | none
    let cs ← ids.mapM (fun i => w.o[i]?)
    pure (mkColl defaultOpts .geometryCollection cs none)
  | "fc" => do
    let (_ :: ids) := args | none
    let cs ← ids.mapM (fun i => w.o[i]?)
    pure (mkColl defaultOpts .featureCollection cs none)
  | "feature" => do
    let (cid :: mhex :: ast) := args | none
    let c ← w.o[cid]?
    let text := unhexS mhex
    let trimmed := text.trimAscii.toString
    pure (.feature c (featureExtra trimmed (readAST ast)))
  | _ => none

/-- the object and every nested object of a standard type reports itself valid -/
def validDeep : Obj → Bool
  | .feature b _ => validDeep b
  | .coll k cs ex idx => (Obj.coll k cs ex idx).valid && cs.attach.all (fun ⟨c, _⟩ => validDeep c)
  | .circle c _ => c.fin && c.p.valid
  | o => o.valid

/-- all positions of the non-empty leaf parts (C11 specification side) -/
def partPositions : Obj → List Pt
  | .point p _ => [p.p]
  | .spoint p => [p.p]
  | .lineString l ps _ => if l.empty then [] else ps.map (·.p)
  | .polygon p rs _ => if p.empty then [] else (rs.map (·.map (·.p))).flatten
  | .rectO b _ _ => [b.min, b.max]
  | .circle _ _ => []
  | .feature b _ => partPositions b
  | .coll _ cs _ _ => (cs.attach.map (fun ⟨c, _⟩ => partPositions c)).flatten

/-- every position of every part, whether the part occupies space or not (the validity clause of
    C11 speaks of "every position") -/
def allPositions : Obj → List Pt
  | .point p _ => [p.p]
  | .spoint p => [p.p]
  | .lineString _ ps _ => ps.map (·.p)
  | .polygon _ rs _ => (rs.map (·.map (·.p))).flatten
  | .rectO b _ _ => [b.min, b.max]
  | .circle _ _ => []
  | .feature b _ => allPositions b
  | .coll _ cs _ _ => (cs.attach.map (fun ⟨c, _⟩ => allPositions c)).flatten

/-- some part that occupies no space carries an out-of-range position (known finding D21) -/
def emptyPartInvalid (o : Obj) : Bool :=
  (partPositions o).all Pt.valid && !(allPositions o).all Pt.valid

/-- some polygon has a hole position outside its exterior ring's box (known finding D15) -/
def holeOut : Obj → Bool
  | .polygon p rs _ =>
    if p.empty then false else
    match rs with
    | e :: hs => match bboxSpec (e.map (·.p)) with
      | some b => hs.any (·.any (fun q => !b.containsPt q.p))
      | none => false
    | [] => false
  | .feature b _ => holeOut b
  | .coll _ cs _ _ => cs.attach.any (fun ⟨c, _⟩ => holeOut c)
  | _ => false

/-- the number of positions of an object, counted directly (a Circle counts as one) -/
def specNumPoints : Obj → Nat
  | .point _ _ => 1
  | .spoint _ => 1
  | .lineString _ ps _ => ps.length
  | .polygon _ rs _ => (rs.map List.length).sum
  | .rectO _ _ _ => 2
  | .circle _ _ => 1
  | .feature b _ => specNumPoints b
  | .coll _ cs _ _ => (cs.attach.map (fun ⟨c, _⟩ => specNumPoints c)).sum

def attrsSpec (o : Obj) : String :=
  let ps := partPositions o
  let bb := (bboxSpec ps).getD ⟨⟨0,0⟩,⟨0,0⟩⟩
  let c : Pt := match o with
    | .point p _ => p.p
    | .spoint p => p.p
    | _ => ⟨(bb.min.x + bb.max.x) / 2, (bb.min.y + bb.max.y) / 2⟩
  let emp := match o with
    | .rectO _ _ _ => false
    | _ => ps.isEmpty
  s!"{b2s emp}{b2s ((allPositions o).all Pt.valid)} {ratS bb.min.x},{ratS bb.min.y},{ratS bb.max.x},{ratS bb.max.y} {ratS c.x},{ratS c.y} {specNumPoints o}"

def isLeafDeep : Obj → Bool
  | .coll _ _ _ _ => false
  | .feature b _ => isLeafDeep b
  | _ => true

def collChildren : Obj → Option (List Obj)
  | .coll _ cs _ _ => some cs
  | _ => none

/-- C10 composition laws, brute force over the children (no rectangle pre-filter) -/
def collSpec (a b : Obj) : String × String × String :=
  match collChildren a with
  | none =>
    -- leaf receiver against a collection argument: intersects composes over the argument's children
    match collChildren b with
    | some cs => if isLeafDeep a then ("-", "-", b2s (!a.empty && cs.any (fun c => !c.empty && a.intersects c))) else ("-", "-", "-")
    | none => ("-", "-", "-")
  | some cs =>
    let kids := cs.filter (fun c => !c.empty)
    let parts := b.leaves.filter (fun g => !g.empty)
    let inter := kids.any (fun c => parts.any (fun g => c.intersects g))
    let cont := !parts.isEmpty && parts.all (fun g => kids.any (fun c => c.contains g))
    let withn := if isLeafDeep b then b2s (!a.empty && cs.all (fun c => c.within b)) else "-"
    (b2s cont, withn, b2s inter)

def attrsS (o : Obj) : String :=
  let r := o.rect
  let c := o.center
  s!"{b2s o.empty}{b2s o.valid} {ratS r.min.x},{ratS r.min.y},{ratS r.max.x},{ratS r.max.y} {ratS c.x},{ratS c.y} {o.numPoints}"

def children : Obj → Option (List Obj)
  | .coll _ cs _ _ => some cs
  | _ => none

/-- a number literal beyond the binary64 range (`1e999`: ±Inf after Go's parse).  The model keeps
    only "not finite" for such an ordinate, so it cannot decide Go's `+Inf == +Inf` ring-closure and
    rectangle tests (finding of the regenerated-parser bridge, `Props/ParseBridgeFinding.lean`):
    documents containing one are declined (`unmodelled`; the implementation's outcome class is still judged) -/
partial def hasOverflowLit : JVal → Bool
  | .num fin _ _ _ _ => !fin
  | .arr items => items.any hasOverflowLit
  | .obj ms => ms.any (fun m => hasOverflowLit m.2.2)
  | _ => false

def oparse (w : World) (expect : String) (args : List String) : World × String :=
  match args with
  | id :: opts :: _hex :: ast =>
    match parseOptsS opts with
    | none => (w, "bad-op")
    | some po =>
      let w' := { w with o := w.o.erase id }
      -- require-valid is a filter: accepted iff accepted without it and valid throughout
      let expect := if expect != "rv" then expect else
        match readAST ast with
        | none => "err"
        | some v => match parseTop { po with requireValid := false } v with
          | .ok ob => if validDeep ob then "ok" else "err"
          | .error .unmodelled => "-"
          | .error _ => "err"
      if ast == ["nonutf8"] then (w', "unmodelled | - | pu")
      else if (match readAST ast with | some v => hasOverflowLit v | none => false) then (w', "unmodelled | - | pu")
      else if ast == ["invalid"] then (w', s!"err dataInvalid | {expect} | pe:dataInvalid")
      else match readAST ast with
        | none => (w', "bad-ast")
        | some v =>
          match parseTop po v with
          | .error .unmodelled => (w', "unmodelled | - | pu")
          | .error e => (w', s!"err {errName e} | {expect} | pe:{errName e}")
          | .ok ob =>
            match write ob with
            | some j => ({ w' with o := w'.o.insert id ob }, s!"ok {kindName ob} {hexOfString j} | {expect} | po:{kindName ob}")
            | none => (w', "panic | - | pp")
  | _ => (w, "bad-op")

/-- float token `<bits>:<canonhex>`: only the canonical text matters for writing -/
def fpos (tx ty : String) : Option Pos := do
  let [_, cx] := tx.splitOn ":" | none
  let [_, cy] := ty.splitOn ":" | none
  let xs := unhexS cx; let ys := unhexS cy
  pure ⟨⟨0, 0⟩, xs != "null" && ys != "null", xs, ys⟩

def fposs : List String → Option (List Pos)
  | x :: y :: rest => do
    let p ← fpos x y
    let ps ← fposs rest
    pure (p :: ps)
  | [] => some []
  | _ => none

partial def fringsOf : Nat → List String → Option (List (List Pos))
  | 0, _ => some []
  | k+1, n :: rest => do
    let n ← n.toNat?
    let ps ← fposs (rest.take (2 * n))
    let more ← fringsOf k (rest.drop (2 * n))
    pure (ps :: more)
  | _, _ => none

/-- constructors with arbitrary floats: the written text only depends on the canonical number
    texts, the planar parts of these objects are placeholders (never queried) -/
def onewf (ctor : String) (args : List String) : Option Obj :=
  let dummyLine (n : Nat) : Line := ⟨(List.replicate n (⟨0,0⟩ : Pt)).toArray, false, false, false, ⟨⟨0,0⟩,⟨0,0⟩⟩, none⟩
  match ctor, args with
  | "point", [x, y] => (fpos x y).map (fun p => .point p none)
  | "spoint", [x, y] => (fpos x y).map (fun p => .spoint p)
  | "pointz", [x, y, z] => do
    let p ← fpos x y
    let [_, cz] := z.splitOn ":" | none
    pure (.point p (some ⟨1, [unhexS cz], "", false⟩))
  | "rect", [a, b, c, d] => do
    let lo ← fpos a b
    let hi ← fpos c d
    pure (.rectO ⟨⟨0,0⟩,⟨0,0⟩⟩ lo hi)
  | "circle", [x, y, m, _steps] => do
    let c ← fpos x y
    let [_, cm] := m.splitOn ":" | none
    pure (.circle c (unhexS cm))
  | "line", ps => do
    let poss ← fposs ps
    pure (.lineString (dummyLine poss.length) poss none)
  | "polygon", nr :: rest => do
    let nr ← nr.toNat?
    let rings ← fringsOf nr rest
    match rings with
    | [] => pure (.polygon ⟨none, []⟩ [] none)
    | e :: _ =>
      -- Empty() of the exterior: fewer than 3 points
      let ext : Ring := .ser ⟨(List.replicate e.length (⟨0,0⟩ : Pt)).toArray, true, false, false, ⟨⟨0,0⟩,⟨0,0⟩⟩, none⟩
      pure (.polygon ⟨some ext, []⟩ rings none)
  | "mp", ps => do
    let poss ← fposs ps
    pure (.coll .multiPoint (poss.map (fun p => Obj.point p none)) none false)
  | _, _ => none

def stepW (w : World) (line : String) : World × String :=
  let toks0 := (line.trimAscii.toString.splitOn " ").filter (· ≠ "")
  let toks := match toks0 with
    | "same" :: _ :: rest => rest
    | t => t
  match toks with
  | ["oreset"] => ({ w with o := {} }, "ok")
  | "oparse" :: rest => oparse w "-" rest
  | "oparsewf" :: rest => oparse w "ok" rest
  | "oparsewfmix" :: rest => oparse w "ok" rest
  | "oparsedef" :: rest => oparse w "err" rest
  | "oparserv" :: rest => oparse w "rv" rest
  | "onewf" :: id :: ctor :: args =>
    match onewf ctor args with
    | some ob =>
      match write ob with
      | some j => ({ w with o := w.o.insert id ob }, s!"ok {kindName ob} {hexOfString j} | - | of:{ctor}")
      | none => (w, "panic | - | pp")
    | none => (w, "bad-op")
  | "oparseXX" :: id :: opts :: _hex :: ast =>
    match parseOptsS opts with
    | none => (w, "bad-op")
    | some po =>
      let w' := { w with o := w.o.erase id }
      if ast == ["invalid"] then (w', "err dataInvalid | - | pe:dataInvalid")
      else match readAST ast with
        | none => (w', "bad-ast")
        | some v =>
          match parseTop po v with
          | .error .unmodelled => (w', "unmodelled | - | pu")
          | .error e => (w', s!"err {errName e} | - | pe:{errName e}")
          | .ok ob =>
            match write ob with
            | some j => ({ w' with o := w'.o.insert id ob }, s!"ok {kindName ob} {hexOfString j} | - | po:{kindName ob}")
            | none => (w', "panic | - | pp")
  | "onew" :: id :: ctor :: args =>
    match onew w ctor args with
    | some ob =>
      match write ob with
      | some j => ({ w with o := w.o.insert id ob }, s!"ok {kindName ob} {hexOfString j} | - | on:{ctor}")
      | none => (w, "panic | - | pp")
    | none => (w, "bad-op")
  | ["ojson", id] =>
    match w.o[id]? with
    | none => (w, "noobj")
    | some ob =>
      match write ob with
      | some j => (w, s!"{hexOfString j} same=1 append=1 valid=1 type=1 depth=1 | - | oj:{kindName ob}")
      | none => (w, "panic | - | pp")
  | ["oattrs", id] =>
    match w.o[id]? with
    | none => (w, "noobj")
    | some ob => if planar ob then (w, s!"{attrsS ob} | {attrsSpec ob} | oa:{kindName ob}{if holeOut ob then ":holeout" else ""}{if emptyPartInvalid ob then ":emptyinvalid" else ""}") else (w, "unmodelled | - | pu")
  | ["opred", a, b] =>
    match w.o[a]?, w.o[b]? with
    | some x, some y =>
      if planar x && planar y then
        let (c1, w1, i1) := collSpec x y
        let (c2, w2, i2) := collSpec y x
        (w, s!"{b2s (x.contains y)}{b2s (x.within y)}{b2s (x.intersects y)}{b2s (y.intersects x)}{b2s (y.contains x)}{b2s (y.within x)} | {c1}{w1}{i1}{i2}{c2}{w2} | op:{kindName x}:{kindName y}")
      else (w, "unmodelled | - | pu")
    | _, _ => (w, "noobj")
  | ["ochildren", id] =>
    match w.o[id]? with
    | none => (w, "noobj")
    | some ob =>
      match children ob with
      | none => (w, "notcoll")
      | some cs =>
        let ks := ",".intercalate (cs.map (fun c => kindName c ++ ":" ++ b2s c.empty))
        let ls := ",".intercalate (ob.leaves.map kindName)
        (w, s!"{cs.length} [{ks}] [{ls}] | - | oc")
  | "osearch" :: id :: rest =>
    match w.o[id]? with
    | none => (w, "noobj")
    | some ob =>
      match children ob, (rest.drop 4).head?.bind String.toNat? with
      | some cs, some stop =>
        if !planar ob then (w, "unmodelled | - | pu") else
        -- the ring argument of queryBox only supplies bounds for ±inf: use the collection's rect
        match queryBox (.bx ob.rect) (rest.take 4) with
        | none => (w, "bad-op")
        | some q =>
          let idxs := (List.range cs.length).filter (fun i => match cs[i]? with
            | some c => !c.empty && c.rect.intersects q | none => false)
          if stop == 0 then (w, s!"{natList idxs} | - | os{min idxs.length 3}")
          else (w, s!"n={min stop idxs.length} subset=1 | - | os{min idxs.length 3}")
      | _, _ => (w, "bad-op")
  | ["oindexed", id] =>
    match w.o[id]? with
    | some (.coll _ _ _ idx) => (w, s!"{b2s idx} | - | oi")
    | some _ => (w, "notcoll")
    | none => (w, "noobj")
  | "gfn" :: _ => (w, "bad-op")   -- answered by the side executable gfndriver (GMain.lean)
  | t :: _ =>
    if t.startsWith "x" then (w, "ok | - | x")
    else
      let (g', out) := step w.g line
      ({ w with g := g' }, out)
  | [] => (w, "bad-op")

end Driver
end Geo
