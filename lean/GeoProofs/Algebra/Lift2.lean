/-
  GeoProofs.Algebra.Lift2 — lifting of "Contains ⇒ rectangle covers" and "Contains ⇒ Intersects"
  with DIFFERENT classes of leaves for the receiver (`CA`) and the argument (`CB`)
  (the one-class versions are in GeoProofs/ObjLemmas.lean; same proofs).
-/
import GeoProofs.ObjLemmas

namespace Geo
open Obj

section lift2
variable {CA CB : Obj → Prop}

theorem atoms_of_leaves_contains2 {Q : Obj → Obj → Prop}
    (hleaf : ∀ a b : Obj, a.isLeaf = true → b.isLeaf = true → CA a → CB b → a.contains b = true → Q a b) :
    ∀ a b : Obj, a.isAtom = true → b.isAtom = true → Obj.AllLeaves CA a → Obj.AllLeaves CB b →
      a.contains b = true → Q a b := by
  intro a b ha hb ca cb h
  rcases isLeaf_or_circle ha with la | ⟨c, r, rfl⟩
  · rcases isLeaf_or_circle hb with lb | ⟨c, r, rfl⟩
    · exact hleaf a b la lb (allLeaves_atom ha ca la) (allLeaves_atom hb cb lb) h
    · rw [atom_contains_circle ha] at h; cases h
  · rw [circle_contains] at h; cases h

/-- Contains ⇒ the receiver's rectangle covers the argument's -/
theorem contains_rect_covers_lift_on2
    (hleaf : ∀ a b : Obj, a.isLeaf = true → b.isLeaf = true → CA a → CB b → a.contains b = true →
      a.rect.containsBox b.rect = true) :
    ∀ a b : Obj, Obj.AllLeaves CA a → Obj.AllLeaves CB b → a.contains b = true →
      a.rect.containsBox b.rect = true := by
  have hatom := atoms_of_leaves_contains2 hleaf
  have step1 : ∀ a : Obj, a.isAtom = true → Obj.AllLeaves CA a → ∀ b : Obj, Obj.AllLeaves CB b →
      a.contains b = true → a.rect.containsBox b.rect = true := by
    intro a ha ca b
    induction b using Obj.ind' with
    | hatom b hb => intro cb; exact hatom a b ha hb ca cb
    | hfeat b ex ih =>
      intro cb; rw [atom_contains_feature ha, feature_rect]; exact ih (allLeaves_feature cb)
    | hcoll k cs ex idx ih =>
      intro cb h
      obtain ⟨hne, hall⟩ := (atom_contains_coll_iff ha k cs ex idx).1 h
      exact coll_rect_least hne (fun c hc _ => ih c hc (allLeaves_child cb hc) (hall c hc).2.2)
  intro a
  induction a using Obj.ind' with
  | hatom a ha => intro b ca; exact step1 a ha ca b
  | hfeat a ex ih =>
    intro b ca; rw [feature_contains, feature_rect]; exact ih b (allLeaves_feature ca)
  | hcoll k cs ex idx ih =>
    intro b ca cb h
    obtain ⟨_, ⟨g0, hg0, hg0e⟩, hall⟩ := (collR_contains_iff b).1 h
    apply rect_least_of_leaves b _ (nonempty_of_leaf hg0 hg0e)
    intro g hg hge
    obtain ⟨c, hc, hce, _, hcg⟩ := hall g hg hge
    exact Box.containsBox_trans (coll_rect_covers_child hc hce)
      (ih c hc g (allLeaves_child ca hc) (allLeaves_leaf cb hg) hcg)

/-- Contains ⇒ Intersects -/
theorem contains_intersects_lift_on2
    (hleaf : ∀ a b : Obj, a.isLeaf = true → b.isLeaf = true → CA a → CB b → a.contains b = true →
      a.intersects b = true) :
    ∀ a b : Obj, Obj.AllLeaves CA a → Obj.AllLeaves CB b → a.contains b = true →
      a.intersects b = true := by
  have hatom := atoms_of_leaves_contains2 hleaf
  have step1 : ∀ a : Obj, a.isAtom = true → Obj.AllLeaves CA a → ∀ b : Obj, Obj.AllLeaves CB b →
      a.contains b = true → a.intersects b = true := by
    intro a ha ca b
    induction b using Obj.ind' with
    | hatom b hb => intro cb; exact hatom a b ha hb ca cb
    | hfeat b ex ih =>
      intro cb; rw [atom_contains_feature ha, atom_intersects_feature ha]; exact ih (allLeaves_feature cb)
    | hcoll k cs ex idx ih =>
      intro cb h
      obtain ⟨hne, hall⟩ := (atom_contains_coll_iff ha k cs ex idx).1 h
      rw [Obj.empty, allEmpty_false_iff] at hne
      obtain ⟨c, hc, hce⟩ := hne
      exact (atom_intersects_coll_iff ha k cs ex idx).2
        ⟨c, hc, hce, (hall c hc).2.1, ih c hc (allLeaves_child cb hc) (hall c hc).2.2⟩
  intro a
  induction a using Obj.ind' with
  | hatom a ha => intro b ca; exact step1 a ha ca b
  | hfeat a ex ih =>
    intro b ca; rw [feature_contains, feature_intersects]; exact ih b (allLeaves_feature ca)
  | hcoll k cs ex idx ih =>
    intro b ca cb h
    obtain ⟨_, ⟨g, hg, hge⟩, hall⟩ := (collR_contains_iff b).1 h
    obtain ⟨c, hc, hce, hr, hcg⟩ := hall g hg hge
    exact (collR_intersects_iff b).2 ⟨c, hc, hce, g, hg, hge, hr,
      ih c hc g (allLeaves_child ca hc) (allLeaves_leaf cb hg) hcg⟩

end lift2
end Geo
