/-
  GeoProofs.Symmetry.Parity — crossing parity of a CLOSED chain is invariant, off the
  boundary, under every point map `T` that
    * is injective,
    * multiplies every orientation determinant by one non-zero constant `k`
      (`Spec.cross (T a) (T b) (T c) = k * Spec.cross a b c`; k = -1 for the two reflections
      and for the transposition),
    * preserves "p lies on the closed segment ab",
    * sends a point above-and-to-the-right of a finite set to a point strictly above or
      strictly below the image of the set.
  (`LatSym T k`.)  No simplicity of the chain is assumed.

  ROUTE (one argument for all three symmetries, in particular for the transposition, which
  exchanges the axes and turns the rightward horizontal ray into the upward vertical one):
  from the query point `p` (off the chain) go straight to a far point `q`, above and to the
  right of every vertex, chosen GENERIC: the segment `pq` passes through no vertex of the
  chain (`exists_generic_far`: on the vertical line x = X each vertex forbids at most one
  ordinate; the rationals above a bound are infinite).  Then every edge either avoids `pq`
  or is crossed properly by it, so the counting form of the Jordan lemma
  (`parity_add_eq_crossings`) gives
      parity p + parity q ≡ #{proper crossings of pq}            (chain, p, q)
      parity' (T p) + parity' (T q) ≡ #{proper crossings}        (T chain, T p, T q)
  with the SAME number on the right (`T` preserves `segsMeet` and `proper`), and both
  parities vanish at the far point (`parity_far`: a point strictly above / below every
  vertex is crossed by no edge).
-/
import GeoProofs.Jordan.Parity
import GeoProofs.EquivLemmas
import Mathlib.Order.Interval.Set.Infinite
import Mathlib.Data.Set.Finite.Basic

namespace Geo

/-- the hypotheses on the point map -/
structure LatSym (T : Pt → Pt) (k : Rat) : Prop where
  inj : Function.Injective T
  k_ne : k ≠ 0
  cross : ∀ a b c : Pt, Spec.cross (T a) (T b) (T c) = k * Spec.cross a b c
  onSeg : ∀ a b p : Pt, OnSeg (T a) (T b) (T p) ↔ OnSeg a b p
  far : ∀ (q : Pt) (l : List Pt), (∀ v ∈ l, v.x < q.x ∧ v.y < q.y) →
    (∀ v ∈ l, (T v).y < (T q).y) ∨ (∀ v ∈ l, (T q).y < (T v).y)

namespace Sym
open Jordan

/-! ### what `T` preserves, Bool level -/

section
variable {T : Pt → Pt} {k : Rat} (hT : LatSym T k)
include hT

theorem onSeg_map (a b p : Pt) : Spec.onSeg (T a) (T b) (T p) = Spec.onSeg a b p := by
  rw [Bool.eq_iff_iff, spec_onSeg_iff, spec_onSeg_iff]
  exact hT.onSeg a b p

theorem mul_neg_map (x y : Rat) : k * x * (k * y) < 0 ↔ x * y < 0 := by
  have hkk : 0 < k * k := by
    rcases lt_or_gt_of_ne hT.k_ne with h | h
    · exact mul_pos_of_neg_of_neg h h
    · exact mul_pos h h
  have e : k * x * (k * y) = (k * k) * (x * y) := by ring
  rw [e]
  constructor <;> intro h <;> nlinarith

theorem proper_map (a b p q : Pt) : proper (T a) (T b) (T p) (T q) = proper a b p q := by
  unfold proper
  simp only [hT.cross, mul_neg_map hT]

theorem segsMeet_map (a b c d : Pt) :
    Spec.segsMeet (T a) (T b) (T c) (T d) = Spec.segsMeet a b c d := by
  unfold Spec.segsMeet
  simp only [hT.cross, mul_neg_map hT, onSeg_map hT]

theorem onBoundary_map (pts : List Pt) (closed : Bool) (p : Pt) :
    Spec.onBoundary (Spec.edges (pts.map T) closed) (T p) = Spec.onBoundary (Spec.edges pts closed) p := by
  rw [EQ.edges_map T hT.inj]
  unfold Spec.onBoundary
  rw [List.any_map]
  congr 1
  funext e
  exact onSeg_map hT e.1 e.2 p

end

/-! ### a point strictly above (or strictly below) every vertex -/

theorem edges_ends (pts : List Pt) (closed : Bool) (e : Pt × Pt) (he : e ∈ Spec.edges pts closed) :
    e.1 ∈ pts ∧ e.2 ∈ pts := by
  obtain ⟨i, hi, rfl⟩ := GL.edges_mem_segmentAt pts.toArray closed e he
  exact GL.segmentAt_mem pts.toArray closed i hi

theorem parity_far (pts : List Pt) (closed : Bool) (q : Pt)
    (h : (∀ v ∈ pts, v.y < q.y) ∨ (∀ v ∈ pts, q.y < v.y)) :
    Spec.parity (Spec.edges pts closed) q = 0 ∧ Spec.onBoundary (Spec.edges pts closed) q = false := by
  constructor
  · unfold Spec.parity
    have : (Spec.edges pts closed).filter (fun e => Spec.crosses e.1 e.2 q) = [] := by
      rw [List.filter_eq_nil_iff]
      intro e he
      obtain ⟨h1, h2⟩ := edges_ends pts closed e he
      unfold Spec.crosses
      rcases h with h | h
      · have a1 := (h _ h1).le
        have a2 := (h _ h2).le
        simp [a1, a2]
      · have a1 := not_le.2 (h _ h1)
        have a2 := not_le.2 (h _ h2)
        simp [a1, a2]
    rw [this]
    rfl
  · unfold Spec.onBoundary
    rw [List.any_eq_false]
    intro e he
    obtain ⟨h1, h2⟩ := edges_ends pts closed e he
    intro hon
    obtain ⟨-, -, -, h3, h4⟩ := (spec_onSeg_iff _ _ _).1 hon
    rcases h with h | h
    · have a1 := h _ h1
      have a2 := h _ h2
      have := max_lt a1 a2
      linarith
    · have a1 := h _ h1
      have a2 := h _ h2
      have := lt_min a1 a2
      linarith

/-! ### a generic far point -/

theorem exists_bound (l : List Rat) : ∃ M : Rat, ∀ x ∈ l, x < M := by
  induction l with
  | nil => exact ⟨0, fun x hx => by simp at hx⟩
  | cons a l ih =>
    obtain ⟨M, hM⟩ := ih
    refine ⟨max M (a + 1), ?_⟩
    intro x hx
    rcases List.mem_cons.1 hx with rfl | hx
    · exact lt_of_lt_of_le (by linarith) (le_max_right _ _)
    · exact lt_of_lt_of_le (hM x hx) (le_max_left _ _)

/-- a point `q` above and to the right of `p` and of every point of `pts`, such that the line
    `pq` passes through no point of `pts` other than `p` -/
theorem exists_generic_far (pts : List Pt) (p : Pt) :
    ∃ q : Pt, (∀ v ∈ pts, v.x < q.x ∧ v.y < q.y) ∧
      ∀ v ∈ pts, v ≠ p → Spec.cross p q v ≠ 0 := by
  obtain ⟨X, hX⟩ := exists_bound (p.x :: pts.map (·.x))
  obtain ⟨Y, hY⟩ := exists_bound (pts.map (·.y))
  have hpX : p.x < X := hX _ (by simp)
  have hvX : ∀ v ∈ pts, v.x < X := fun v hv => hX _ (by
    simp only [List.mem_cons, List.mem_map]; exact Or.inr ⟨v, hv, rfl⟩)
  have hvY : ∀ v ∈ pts, v.y < Y := fun v hv => hY _ (List.mem_map.2 ⟨v, hv, rfl⟩)
  -- the forbidden ordinates
  let bad : Finset Rat := (pts.map (fun v => p.y + (X - p.x) * (v.y - p.y) / (v.x - p.x))).toFinset
  obtain ⟨t, ht, htb⟩ := (Set.Ioi_infinite Y).exists_notMem_finset bad
  have ht : Y < t := ht
  refine ⟨⟨X, t⟩, fun v hv => ⟨hvX v hv, lt_trans (hvY v hv) ht⟩, ?_⟩
  intro v hv hne hc
  rw [K.cross_def] at hc
  simp only at hc
  by_cases hx : v.x = p.x
  · have hy : v.y ≠ p.y := fun hy => hne ((K.pt_eq_iff v p).2 ⟨hx, hy⟩)
    rw [hx, sub_self, mul_zero, sub_zero] at hc
    rcases mul_eq_zero.1 hc with h | h
    · linarith
    · exact hy (by linarith)
  · apply htb
    rw [List.mem_toFinset, List.mem_map]
    refine ⟨v, hv, ?_⟩
    have hd : v.x - p.x ≠ 0 := sub_ne_zero.2 hx
    field_simp
    linarith

/-! ### the theorem -/

theorem parity_lt_two (es : List (Pt × Pt)) (p : Pt) : Spec.parity es p < 2 := by
  unfold Spec.parity
  exact Nat.mod_lt _ (by decide)

theorem segsMeet_eq_proper {a b p q : Pt} (h1 : Spec.onSeg a b p = false) (h2 : Spec.onSeg a b q = false)
    (h3 : Spec.onSeg p q a = false) (h4 : Spec.onSeg p q b = false) :
    Spec.segsMeet a b p q = proper a b p q := by
  unfold Spec.segsMeet proper
  simp only [h1, h2, h3, h4, Bool.or_false]

theorem onSeg_false_of_cross {a b p : Pt} (h : Spec.cross a b p ≠ 0) : Spec.onSeg a b p = false := by
  cases hc : Spec.onSeg a b p with
  | false => rfl
  | true => exact absurd ((spec_onSeg_iff a b p).1 hc).1 h

/-- crossing parity of a closed chain is invariant under `T`, off the boundary -/
theorem parity_map {T : Pt → Pt} {k : Rat} (hT : LatSym T k) (pts : List Pt) (p : Pt)
    (hp : Spec.onBoundary (Spec.edges pts true) p = false) :
    Spec.parity (Spec.edges (pts.map T) true) (T p) = Spec.parity (Spec.edges pts true) p := by
  obtain ⟨q, hfar, hgen⟩ := exists_generic_far pts p
  obtain ⟨hq0, hqb⟩ := parity_far pts true q (Or.inl fun v hv => (hfar v hv).2)
  have hq0' : Spec.parity (Spec.edges (pts.map T) true) (T q) = 0 := by
    refine (parity_far (pts.map T) true (T q) ?_).1
    rcases hT.far q pts hfar with h | h
    · left
      intro v hv
      obtain ⟨w, hw, rfl⟩ := List.mem_map.1 hv
      exact h w hw
    · right
      intro v hv
      obtain ⟨w, hw, rfl⟩ := List.mem_map.1 hv
      exact h w hw
  have hoffp : ∀ e ∈ Spec.edges pts true, Spec.onSeg e.1 e.2 p = false := by
    unfold Spec.onBoundary at hp
    rw [List.any_eq_false] at hp
    intro e he
    simpa using hp e he
  have hoffq : ∀ e ∈ Spec.edges pts true, Spec.onSeg e.1 e.2 q = false := by
    unfold Spec.onBoundary at hqb
    rw [List.any_eq_false] at hqb
    intro e he
    simpa using hqb e he
  have heq : ∀ e ∈ Spec.edges pts true, Spec.segsMeet e.1 e.2 p q = proper e.1 e.2 p q := by
    intro e he
    obtain ⟨h1, h2⟩ := edges_ends pts true e he
    have hn1 : e.1 ≠ p := by
      intro hc
      have := hoffp e he
      rw [← hc, (spec_onSeg_iff _ _ _).2 (K.onSeg_left e.1 e.2)] at this
      cases this
    have hn2 : e.2 ≠ p := by
      intro hc
      have := hoffp e he
      rw [← hc, (spec_onSeg_iff _ _ _).2 (K.onSeg_right e.1 e.2)] at this
      cases this
    exact segsMeet_eq_proper (hoffp e he) (hoffq e he)
      (onSeg_false_of_cross (hgen _ h1 hn1)) (onSeg_false_of_cross (hgen _ h2 hn2))
  have hall : ∀ e ∈ Spec.edges pts true,
      Spec.segsMeet e.1 e.2 p q = false ∨ proper e.1 e.2 p q = true := by
    intro e he
    rw [heq e he]
    cases proper e.1 e.2 p q
    · exact Or.inl rfl
    · exact Or.inr rfl
  have h1 := parity_add_eq_crossings pts p q hall
  have h2 := parity_add_eq_crossings (pts.map T) (T p) (T q) (by
    rw [EQ.edges_map T hT.inj]
    intro e he
    obtain ⟨f, hf, rfl⟩ := List.mem_map.1 he
    simp only [Prod.map, segsMeet_map hT, proper_map hT]
    exact hall f hf)
  have hcount : ((Spec.edges (pts.map T) true).filter (fun e => proper e.1 e.2 (T p) (T q))).length
      = ((Spec.edges pts true).filter (fun e => proper e.1 e.2 p q)).length := by
    rw [EQ.edges_map T hT.inj, List.filter_map, List.length_map]
    congr 1
    apply List.filter_congr
    intro e _
    simp only [Function.comp, Prod.map, proper_map hT]
  rw [hcount, hq0'] at h2
  rw [hq0] at h1
  have b1 := parity_lt_two (Spec.edges pts true) p
  have b2 := parity_lt_two (Spec.edges (pts.map T) true) (T p)
  omega

end Sym
end Geo
