import GeoModel.Num
import GeoModel.Kernel
import GeoModel.Index
import GeoModel.Series
import GeoModel.Geom
import GeoModel.Spec
import GeoModel.Driver
