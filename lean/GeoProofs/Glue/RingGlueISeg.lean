/-
  GeoProofs.Glue.RingGlueISeg — ringIntersectsSegment: the translation of the Go source, over the
  model operations, computes the hand model `Geo.ringIntersectsSegment`.
-/
import GeoProofs.Glue.RingGluePoint
set_option linter.unusedSimpArgs false

namespace Geo.RGlue
open Geo

/-- the generated search state (segAOn, segBOn, count) as a function of the model's -/
def riPhi (st : RISt) : Bool × Bool × Int := (st.segAOn, st.segBOn, (st.count : Int))

theorem pointEq_ofPt (f : Ring → Ring → Bool → Bool) (a b : Pt) :
    (mopsR f).pointEq (EPt.ofPt a) (EPt.ofPt b) = decide (a = b) := by
  show decide (EPt.ofPt a = EPt.ofPt b) = decide (a = b)
  simp [ofPt_inj]

/-- the model's callback of ringIntersectsSegment -/
def riF (seg : Seg) (allowOnEdge : Bool) (st : RISt) (seg2 : Seg) (_ : Nat) : RISt × Bool :=
  if seg.intersects seg2 then
    if !allowOnEdge then
      if !(seg.collinearPt seg2.a && seg.collinearPt seg2.b) then
        if !st.segAOn && (seg.a = seg2.a || seg.a = seg2.b) then
          ({ st with segAOn := true }, true)
        else if !st.segBOn && (seg.b = seg2.a || seg.b = seg2.b) then
          ({ st with segBOn := true }, true)
        else
          let st' := { st with count := st.count + 1 }
          (st', st'.count < 2)
      else (st, st.count < 2)
    else
      let st' := { st with count := st.count + 1 }
      (st', st'.count < 2)
  else (st, st.count < 2)

theorem ringIntersectsSegmentS_riF (ring : Ring) (seg : Seg) (allowOnEdge : Bool) :
    ringIntersectsSegmentS ring seg allowOnEdge =
      if !seg.box.intersects ring.rect then ⟨false, 1⟩
      else if (Geo.ringContainsPoint ring seg.a allowOnEdge).hit then ⟨true, 2⟩
      else if (Geo.ringContainsPoint ring seg.b allowOnEdge).hit then ⟨true, 3⟩
      else
        let st := ring.search seg.box (riF seg allowOnEdge) ⟨0, false, false⟩
        ⟨st.count ≥ 2, if st.count ≥ 2 then 4 else 5⟩ := rfl

/-- **ringIntersectsSegment** -/
theorem ringIntersectsSegment_gen (f : Ring → Ring → Bool → Bool) {r : Ring} (hr : Exact r) (seg : Seg)
    (b : Bool) :
    RGen.ringIntersectsSegment (mopsR f) r seg b = Geo.ringIntersectsSegment r seg b := by
  unfold Geo.ringIntersectsSegment
  rw [ringIntersectsSegmentS_riF]
  unfold RGen.ringIntersectsSegment
  have hA : (mopsR f).segmentA seg = EPt.ofPt seg.a := rfl
  have hB : (mopsR f).segmentB seg = EPt.ofPt seg.b := rfl
  have hI : (mopsR f).rectIntersectsRect ((mopsR f).segmentRect seg) ((mopsR f).ringRect r) =
      seg.box.intersects r.rect := rfl
  have hS : (mopsR f).ringSearch r ((mopsR f).segmentRect seg) = visits r seg.box := rfl
  rw [hA, hB, hI, hS, ringContainsPoint_hit f hr, ringContainsPoint_hit f hr]
  by_cases h1 : seg.box.intersects r.rect = true
  · by_cases h2 : (Geo.ringContainsPoint r seg.a b).hit = true
    · simp [h1, h2]
    · by_cases h3 : (Geo.ringContainsPoint r seg.b b).hit = true
      · simp [h1, h2, h3]
      · simp only [h1, h2, h3, Bool.not_true, Bool.false_eq_true, ↓reduceIte]
        rw [show ((false, false, (0 : Int)) : Bool × Bool × Int) = riPhi ⟨0, false, false⟩ from rfl,
          search_eq hr seg.box riPhi (riF seg b) _ ?_]
        · simp [riPhi]
        · intro s seg2 i
          obtain ⟨c, sa, sb⟩ := s
          have e1 := pointEq_ofPt f seg.a seg2.a
          have e2 := pointEq_ofPt f seg.a seg2.b
          have e3 := pointEq_ofPt f seg.b seg2.a
          have e4 := pointEq_ofPt f seg.b seg2.b
          have hA2 : (mopsR f).segmentA seg2 = EPt.ofPt seg2.a := rfl
          have hB2 : (mopsR f).segmentB seg2 = EPt.ofPt seg2.b := rfl
          have hX : (mopsR f).segmentIntersectsSegment seg seg2 = seg.intersects seg2 := rfl
          have hC1 : (mopsR f).segmentCollinearPoint seg (EPt.ofPt seg2.a) = seg.collinearPt seg2.a := rfl
          have hC2 : (mopsR f).segmentCollinearPoint seg (EPt.ofPt seg2.b) = seg.collinearPt seg2.b := rfl
          simp only [riPhi, riF, hA2, hB2, hX, hC1, hC2, e1, e2, e3, e4]
          generalize seg.intersects seg2 = x1
          generalize (seg.collinearPt seg2.a && seg.collinearPt seg2.b) = x2
          generalize (decide (seg.a = seg2.a) || decide (seg.a = seg2.b)) = x3
          generalize (decide (seg.b = seg2.a) || decide (seg.b = seg2.b)) = x4
          cases x1 <;> cases b <;> cases x2 <;> cases sa <;> cases sb <;> cases x3 <;> cases x4 <;> simp <;> exact decide_eq_decide.mpr (by omega)
  · simp [h1]

end Geo.RGlue
