/-
  C01, everything: Props/C01Index.lean (ring / polygon / line / rect membership = crossing-parity
  specification under every index kind) and Props/C01Obj.lean, C01ObjLift.lean (the same at the
  object level: every leaf kind against Point and SimplePoint, all eight relations; collections and
  features: some geometry leaf has the position as a member).
-/
import GeoProofs.Props.C01Index
import GeoProofs.Props.C01Obj
import GeoProofs.Props.C01ObjLift
