/-
  GeoProofs.CoversSpec.Cuts — correctness of the cut-and-sample procedure `Spec.segInside` for a
  membership predicate that is piecewise constant with respect to the edge list (`PieceConst`).
-/
import GeoProofs.CoversSpec.Defs
import GeoProofs.ContainsConvex.SegInside
import Mathlib.Tactic.Linarith
import Mathlib.Tactic.Ring
import Mathlib.Tactic.FieldSimp
import Mathlib.Tactic.LinearCombination
import Mathlib.Tactic.Push
import Mathlib.Tactic.ByContra
import Mathlib.Tactic.Positivity
import Mathlib.Tactic.NormNum

namespace Geo
namespace CS
open Jordan Contains

/-! ### sorted parameter lists -/

theorem insertSorted_sorted (x : Rat) (l : List Rat) (h : l.Pairwise (· < ·)) :
    (Spec.insertSorted x l).Pairwise (· < ·) := by
  induction l with
  | nil => simp [Spec.insertSorted]
  | cons y ys ih =>
    rw [List.pairwise_cons] at h
    unfold Spec.insertSorted
    split_ifs with h1 h2
    · rw [List.pairwise_cons]
      refine ⟨?_, List.pairwise_cons.2 h⟩
      intro z hz
      rcases List.mem_cons.1 hz with rfl | hz
      · exact h1
      · exact lt_trans h1 (h.1 z hz)
    · exact List.pairwise_cons.2 h
    · rw [List.pairwise_cons]
      refine ⟨?_, ih h.2⟩
      intro z hz
      rcases (CC.mem_insertSorted _ _ _).1 hz with rfl | hz
      · exact lt_of_le_of_ne (not_lt.1 h1) (Ne.symm h2)
      · exact h.1 z hz

theorem foldInsert_sorted (cs l : List Rat) (h : l.Pairwise (· < ·)) :
    (cs.foldl (fun acc t => Spec.insertSorted t acc) l).Pairwise (· < ·) := by
  induction cs generalizing l with
  | nil => exact h
  | cons c cs ih => exact ih _ (insertSorted_sorted c l h)

theorem mem_foldInsert (cs l : List Rat) (y : Rat) :
    y ∈ cs.foldl (fun acc t => Spec.insertSorted t acc) l ↔ y ∈ cs ∨ y ∈ l := by
  induction cs generalizing l with
  | nil => simp
  | cons c cs ih =>
    rw [List.foldl_cons, ih, CC.mem_insertSorted, List.mem_cons]
    tauto

/-- the sample parameters of `Spec.segInside` -/
def cuts (p q : Pt) (es : List (Pt × Pt)) (acc : List Rat) : List Rat :=
  es.foldl (fun acc f => (Spec.cutParams p q f.1 f.2).foldl
    (fun acc t => Spec.insertSorted t acc) acc) acc

theorem cuts_sorted (p q : Pt) (es : List (Pt × Pt)) (acc : List Rat)
    (h : acc.Pairwise (· < ·)) : (cuts p q es acc).Pairwise (· < ·) := by
  unfold cuts
  induction es generalizing acc with
  | nil => exact h
  | cons f fs ih => exact ih _ (foldInsert_sorted _ _ h)

theorem mem_cuts (p q : Pt) (es : List (Pt × Pt)) (acc : List Rat) (y : Rat) :
    y ∈ cuts p q es acc ↔ y ∈ acc ∨ ∃ f ∈ es, y ∈ Spec.cutParams p q f.1 f.2 := by
  unfold cuts
  induction es generalizing acc with
  | nil => simp
  | cons f fs ih =>
    rw [List.foldl_cons, ih, mem_foldInsert]
    simp only [List.mem_cons, exists_eq_or_imp]
    tauto

/-- in a strictly increasing list, a number between two entries is an entry or falls strictly
    between two consecutive entries -/
theorem gap (l : List Rat) (hs : l.Pairwise (· < ·)) (τ : Rat)
    (hlo : ∃ a ∈ l, a ≤ τ) (hhi : ∃ b ∈ l, τ ≤ b) :
    τ ∈ l ∨ ∃ uv ∈ l.zip l.tail, uv.1 < τ ∧ τ < uv.2 ∧ ∀ t ∈ l, ¬ (uv.1 < t ∧ t < uv.2) := by
  induction l with
  | nil => obtain ⟨a, ha, -⟩ := hlo; cases ha
  | cons x xs ih =>
    cases xs with
    | nil =>
      obtain ⟨a, ha, ha'⟩ := hlo
      obtain ⟨b, hb, hb'⟩ := hhi
      rw [List.mem_singleton] at ha hb
      subst ha; subst hb
      exact Or.inl (by rw [List.mem_singleton]; exact le_antisymm hb' ha')
    | cons y ys =>
      rw [List.pairwise_cons] at hs
      have hxy : x < y := hs.1 y (by simp)
      by_cases hτ : τ < y
      · obtain ⟨a, ha, ha'⟩ := hlo
        have hax : x ≤ τ := by
          rcases List.mem_cons.1 ha with rfl | ha
          · exact ha'
          · exfalso
            have : y ≤ a := by
              rcases List.mem_cons.1 ha with rfl | ha
              · exact le_refl _
              · exact le_of_lt ((List.pairwise_cons.1 hs.2).1 a ha)
            linarith
        rcases eq_or_lt_of_le hax with rfl | hlt
        · exact Or.inl (by simp)
        · refine Or.inr ⟨(x, y), by simp, hlt, hτ, ?_⟩
          intro t ht
          rcases List.mem_cons.1 ht with rfl | ht
          · exact fun h => lt_irrefl _ h.1
          · intro h
            have : y ≤ t := by
              rcases List.mem_cons.1 ht with rfl | ht
              · exact le_refl _
              · exact le_of_lt ((List.pairwise_cons.1 hs.2).1 t ht)
            exact absurd h.2 (not_lt.2 this)
      · have hyτ : y ≤ τ := not_lt.1 hτ
        obtain ⟨b, hb, hb'⟩ := hhi
        have hb2 : b ∈ y :: ys := by
          rcases List.mem_cons.1 hb with rfl | hb
          · exfalso; linarith
          · exact hb
        rcases ih hs.2 ⟨y, by simp, hyτ⟩ ⟨b, hb2, hb'⟩ with h | ⟨uv, huv, h1, h2, h3⟩
        · exact Or.inl (List.mem_cons_of_mem _ h)
        · refine Or.inr ⟨uv, ?_, h1, h2, ?_⟩
          · simp only [List.tail_cons, List.zip_cons_cons, List.mem_cons] at huv ⊢
            exact Or.inr huv
          · intro t ht
            rcases List.mem_cons.1 ht with rfl | ht
            · intro h
              have := hs.1 uv.1 (List.of_mem_zip huv).1
              exact lt_asymm this h.1
            · exact h3 t ht

/-! ### the parametrisation `Spec.pointAt` -/

theorem pointAt_eq_iff (p q x : Pt) (t : Rat) :
    x = Spec.pointAt p q t ↔ x.x = p.x + t * (q.x - p.x) ∧ x.y = p.y + t * (q.y - p.y) := by
  rw [K.pt_eq_iff]; rfl

theorem pointAt_inj {p q : Pt} (hpq : p ≠ q) {s t : Rat}
    (h : Spec.pointAt p q s = Spec.pointAt p q t) : s = t := by
  rw [pointAt_eq_iff] at h
  obtain ⟨hx, hy⟩ := h
  simp only [Spec.pointAt] at hx hy
  by_contra hst
  have hst' : s - t ≠ 0 := sub_ne_zero.2 hst
  apply hpq
  rw [K.pt_eq_iff]
  constructor
  · have : (s - t) * (q.x - p.x) = 0 := by linarith
    rcases mul_eq_zero.1 this with h | h
    · exact absurd h hst'
    · linarith
  · have : (s - t) * (q.y - p.y) = 0 := by linarith
    rcases mul_eq_zero.1 this with h | h
    · exact absurd h hst'
    · linarith

theorem onSeg_iff_pointAt (p q x : Pt) :
    OnSeg p q x ↔ ∃ τ : Rat, 0 ≤ τ ∧ τ ≤ 1 ∧ x = Spec.pointAt p q τ := by
  have h := K.onSeg_iff_param p q x
  simp only [pointAt_eq_iff]
  exact h

theorem pointAt_pointAt (p q : Pt) (u v l : Rat) :
    Spec.pointAt (Spec.pointAt p q u) (Spec.pointAt p q v) l
      = Spec.pointAt p q (u + l * (v - u)) := by
  rw [pointAt_eq_iff]
  simp only [Spec.pointAt]
  constructor <;> ring

/-- the sub-segment between two parameters -/
theorem onSeg_pointAt_iff {p q : Pt} (hpq : p ≠ q) (a b τ : Rat) :
    OnSeg (Spec.pointAt p q a) (Spec.pointAt p q b) (Spec.pointAt p q τ)
      ↔ ∃ l : Rat, 0 ≤ l ∧ l ≤ 1 ∧ τ = a + l * (b - a) := by
  rw [onSeg_iff_pointAt]
  constructor
  · rintro ⟨l, h0, h1, h⟩
    rw [pointAt_pointAt] at h
    exact ⟨l, h0, h1, pointAt_inj hpq h⟩
  · rintro ⟨l, h0, h1, h⟩
    exact ⟨l, h0, h1, by rw [pointAt_pointAt, h]⟩

theorem openOn_pointAt {p q : Pt} (hpq : p ≠ q) {u v : Rat} (huv : u < v) (z : Pt) :
    OpenOn (Spec.pointAt p q u) (Spec.pointAt p q v) z
      ↔ ∃ τ : Rat, u < τ ∧ τ < v ∧ z = Spec.pointAt p q τ := by
  unfold OpenOn
  constructor
  · rintro ⟨h, hzu, hzv⟩
    obtain ⟨l, h0, h1, rfl⟩ := (onSeg_iff_pointAt _ _ _).1 h
    rw [pointAt_pointAt] at hzu hzv ⊢
    refine ⟨_, ?_, ?_, rfl⟩
    · rcases eq_or_lt_of_le h0 with rfl | h0'
      · exact absurd (by rw [zero_mul, add_zero]) hzu
      · nlinarith
    · rcases eq_or_lt_of_le h1 with rfl | h1'
      · exact absurd (by congr 1; ring) hzv
      · nlinarith
  · rintro ⟨τ, h1, h2, rfl⟩
    refine ⟨?_, ?_, ?_⟩
    · rw [onSeg_pointAt_iff hpq]
      have hne : v - u ≠ 0 := by linarith
      refine ⟨(τ - u) / (v - u), div_nonneg (by linarith) (by linarith), ?_, ?_⟩
      · rw [div_le_one (by linarith)]; linarith
      · field_simp; ring
    · intro h; have := pointAt_inj hpq h; linarith
    · intro h; have := pointAt_inj hpq h; linarith

theorem paramOn_pointAt {p q : Pt} (hpq : p ≠ q) (a : Rat) :
    Spec.paramOn p q (Spec.pointAt p q a) = a := by
  unfold Spec.paramOn
  simp only [Spec.pointAt]
  split_ifs with hx
  · have : q.x - p.x ≠ 0 := fun h => hx (by linarith)
    field_simp; ring
  · have hx' : p.x = q.x := by simpa using hx
    have : q.y - p.y ≠ 0 := fun h => hpq ((K.pt_eq_iff p q).2 ⟨hx', by linarith⟩)
    field_simp; ring

/-- a point of the line through `p ≠ q` has a parameter -/
theorem collinear_pointAt {p q : Pt} (hpq : p ≠ q) (x : Pt) (h : Spec.cross p q x = 0) :
    ∃ a : Rat, x = Spec.pointAt p q a := by
  have hpos : 0 < (q.x - p.x) ^ 2 + (q.y - p.y) ^ 2 := by
    by_contra hn
    have h1 : (q.x - p.x) ^ 2 = 0 := by nlinarith [sq_nonneg (q.x - p.x), sq_nonneg (q.y - p.y)]
    have h2 : (q.y - p.y) ^ 2 = 0 := by nlinarith [sq_nonneg (q.x - p.x), sq_nonneg (q.y - p.y)]
    apply hpq
    rw [K.pt_eq_iff]
    have := pow_eq_zero_iff (n := 2) (by norm_num) |>.1 h1
    have := pow_eq_zero_iff (n := 2) (by norm_num) |>.1 h2
    constructor <;> linarith
  have hne := ne_of_gt hpos
  rw [K.cross_def] at h
  refine ⟨((x.x - p.x) * (q.x - p.x) + (x.y - p.y) * (q.y - p.y)) /
    ((q.x - p.x) ^ 2 + (q.y - p.y) ^ 2), ?_⟩
  rw [pointAt_eq_iff]
  constructor
  · field_simp
    linear_combination (-(q.y - p.y)) * h
  · field_simp
    linear_combination (q.x - p.x) * h

/-! ### the cut parameters of one edge -/

theorem between_end (a b t1 t2 u v : Rat)
    (h1 : ∃ l : Rat, 0 ≤ l ∧ l ≤ 1 ∧ t1 = a + l * (b - a))
    (h2 : ¬ ∃ l : Rat, 0 ≤ l ∧ l ≤ 1 ∧ t2 = a + l * (b - a))
    (hu1 : u < t1) (hv1 : t1 < v) (hu2 : u < t2) (hv2 : t2 < v) :
    (u < a ∧ a < v) ∨ (u < b ∧ b < v) := by
  obtain ⟨l, l0, l1, rfl⟩ := h1
  rcases lt_trichotomy a b with hab | rfl | hab
  · have e1 : a ≤ a + l * (b - a) := by nlinarith
    have e2 : a + l * (b - a) ≤ b := by nlinarith
    by_cases hA : t2 < a
    · exact Or.inl ⟨by linarith, by linarith⟩
    by_cases hB : b < t2
    · exact Or.inr ⟨by linarith, by linarith⟩
    exfalso; apply h2
    have hne : b - a ≠ 0 := by linarith
    refine ⟨(t2 - a) / (b - a), div_nonneg (by linarith) (by linarith), ?_, ?_⟩
    · rw [div_le_one (by linarith)]; linarith
    · field_simp; ring
  · left
    rw [sub_self, mul_zero, add_zero] at hu1 hv1
    exact ⟨hu1, hv1⟩
  · have e1 : b ≤ a + l * (b - a) := by nlinarith
    have e2 : a + l * (b - a) ≤ a := by nlinarith
    by_cases hA : t2 < b
    · exact Or.inr ⟨by linarith, by linarith⟩
    by_cases hB : a < t2
    · exact Or.inl ⟨by linarith, by linarith⟩
    exfalso; apply h2
    have hne : a - b ≠ 0 := by linarith
    refine ⟨(a - t2) / (a - b), div_nonneg (by linarith) (by linarith), ?_, ?_⟩
    · rw [div_le_one (by linarith)]; linarith
    · field_simp; ring

theorem cutParams_ends_sub (a b c d : Pt) (t : Rat)
    (h : t ∈ (if Spec.onSeg a b c then [Spec.paramOn a b c] else []) ++
      (if Spec.onSeg a b d then [Spec.paramOn a b d] else [])) :
    t ∈ Spec.cutParams a b c d := by
  unfold Spec.cutParams
  simp only
  split
  · exact h
  · split
    · exact List.mem_cons_of_mem _ h
    · exact h

theorem mem_cutParams_left {a b c : Pt} (d : Pt) (h : OnSeg a b c) :
    Spec.paramOn a b c ∈ Spec.cutParams a b c d := by
  apply cutParams_ends_sub
  rw [(spec_onSeg_iff a b c).2 h]
  simp

theorem mem_cutParams_right {a b d : Pt} (c : Pt) (h : OnSeg a b d) :
    Spec.paramOn a b d ∈ Spec.cutParams a b c d := by
  apply cutParams_ends_sub
  rw [(spec_onSeg_iff a b d).2 h]
  simp

/-- a transversal crossing point is a cut parameter -/
theorem mem_cutParams_cross {a b c d : Pt} {t m : Rat}
    (hr : (b.x - a.x) * (d.y - c.y) - (b.y - a.y) * (d.x - c.x) ≠ 0)
    (t0 : 0 ≤ t) (t1 : t ≤ 1) (m0 : 0 ≤ m) (m1 : m ≤ 1)
    (hx : a.x + t * (b.x - a.x) = c.x + m * (d.x - c.x))
    (hy : a.y + t * (b.y - a.y) = c.y + m * (d.y - c.y)) :
    t ∈ Spec.cutParams a b c d := by
  have ht : ((c.x - a.x) * (d.y - c.y) - (c.y - a.y) * (d.x - c.x)) /
      ((b.x - a.x) * (d.y - c.y) - (b.y - a.y) * (d.x - c.x)) = t := by
    rw [div_eq_iff hr]
    linear_combination (-(d.y - c.y)) * hx + (d.x - c.x) * hy
  have hm : ((c.x - a.x) * (b.y - a.y) - (c.y - a.y) * (b.x - a.x)) /
      ((b.x - a.x) * (d.y - c.y) - (b.y - a.y) * (d.x - c.x)) = m := by
    rw [div_eq_iff hr]
    linear_combination (-(b.y - a.y)) * hx + (b.x - a.x) * hy
  unfold Spec.cutParams
  simp only
  rw [if_neg hr, ht, hm]
  rw [if_pos (by simp [t0, t1, m0, m1])]
  exact List.mem_cons_self

/-- **one edge, one gap**: between two parameters with no cut parameter of the edge `cd`
    strictly between them, being on `cd` propagates -/
theorem onEdge_propagates {p q : Pt} (hpq : p ≠ q) (c d : Pt) {u v : Rat}
    (hu : 0 ≤ u) (hv : v ≤ 1)
    (hno : ∀ t ∈ Spec.cutParams p q c d, ¬ (u < t ∧ t < v))
    {t1 t2 : Rat} (hu1 : u < t1) (hv1 : t1 < v) (hu2 : u < t2) (hv2 : t2 < v)
    (h1 : OnSeg c d (Spec.pointAt p q t1)) : OnSeg c d (Spec.pointAt p q t2) := by
  by_contra h2
  obtain ⟨m, m0, m1, hx, hy⟩ := (K.onSeg_iff_param c d _).1 h1
  simp only [Spec.pointAt] at hx hy
  by_cases hr : (q.x - p.x) * (d.y - c.y) - (q.y - p.y) * (d.x - c.x) = 0
  · -- parallel: the edge lies on the line `pq`
    have hc : Spec.cross p q c = 0 := by
      rw [K.cross_def]
      linear_combination (q.y - p.y) * hx - (q.x - p.x) * hy - m * hr
    have hd : Spec.cross p q d = 0 := by
      rw [K.cross_def]
      linear_combination (q.y - p.y) * hx - (q.x - p.x) * hy + (1 - m) * hr
    obtain ⟨a, rfl⟩ := collinear_pointAt hpq c hc
    obtain ⟨b, rfl⟩ := collinear_pointAt hpq d hd
    rw [onSeg_pointAt_iff hpq] at h1 h2
    rcases between_end a b t1 t2 u v h1 h2 hu1 hv1 hu2 hv2 with ⟨ha1, ha2⟩ | ⟨hb1, hb2⟩
    · have hon : OnSeg p q (Spec.pointAt p q a) :=
        pointAt_onSeg p q a (by linarith) (by linarith)
      have := mem_cutParams_left (Spec.pointAt p q b) hon
      rw [paramOn_pointAt hpq] at this
      exact hno a this ⟨ha1, ha2⟩
    · have hon : OnSeg p q (Spec.pointAt p q b) :=
        pointAt_onSeg p q b (by linarith) (by linarith)
      have := mem_cutParams_right (Spec.pointAt p q a) hon
      rw [paramOn_pointAt hpq] at this
      exact hno b this ⟨hb1, hb2⟩
  · exact hno t1 (mem_cutParams_cross hr (by linarith) (by linarith) m0 m1 hx hy) ⟨hu1, hv1⟩

/-! ### assembling: `Spec.segInside` on a piecewise constant predicate -/

/-- in a gap of the sample list every edge contains the whole open piece or misses it -/
theorem piece_dichotomy {p q : Pt} (hpq : p ≠ q) (e : Pt × Pt) {u v : Rat}
    (huv : u < v) (hu : 0 ≤ u) (hv : v ≤ 1)
    (hno : ∀ t ∈ Spec.cutParams p q e.1 e.2, ¬ (u < t ∧ t < v)) :
    (∀ z, OpenOn (Spec.pointAt p q u) (Spec.pointAt p q v) z → OnSeg e.1 e.2 z) ∨
    (∀ z, OpenOn (Spec.pointAt p q u) (Spec.pointAt p q v) z → ¬ OnSeg e.1 e.2 z) := by
  by_cases hex : ∃ z, OpenOn (Spec.pointAt p q u) (Spec.pointAt p q v) z ∧ OnSeg e.1 e.2 z
  · left
    obtain ⟨z, hz, hon⟩ := hex
    obtain ⟨t1, a1, b1, rfl⟩ := (openOn_pointAt hpq huv z).1 hz
    intro w hw
    obtain ⟨t2, a2, b2, rfl⟩ := (openOn_pointAt hpq huv w).1 hw
    exact onEdge_propagates hpq e.1 e.2 hu hv hno a1 b1 a2 b2 hon
  · right
    intro z hz hon
    exact hex ⟨z, hz, hon⟩

theorem segInside_iff (m : Pt → Bool) (es : List (Pt × Pt)) (h : PieceConst m es) (p q : Pt) :
    Spec.segInside m es p q = true ↔ ∀ x, OnSeg p q x → m x = true := by
  unfold Spec.segInside
  split_ifs with hpq
  · subst hpq
    constructor
    · intro hp x hx
      obtain ⟨t, -, -, rfl⟩ := (onSeg_iff_pointAt _ _ _).1 hx
      have : Spec.pointAt p p t = p := by
        symm; rw [pointAt_eq_iff]; constructor <;> ring
      rw [this]; exact hp
    · intro hall; exact hall p (K.onSeg_left p p)
  · simp only
    have hts : CC.TsOK (cuts p q es [0, 1]) := CC.ts_ok hpq es [0, 1] ⟨by simp, by simp, fun t ht => by
      simp only [List.mem_cons, List.not_mem_nil, or_false] at ht
      rcases ht with rfl | rfl <;> norm_num⟩
    have hsorted : (cuts p q es [0, 1]).Pairwise (· < ·) :=
      cuts_sorted p q es [0, 1] (by simp)
    have hcut : ∀ f ∈ es, ∀ t ∈ Spec.cutParams p q f.1 f.2, t ∈ cuts p q es [0, 1] :=
      fun f hf t ht => (mem_cuts p q es [0, 1] t).2 (Or.inr ⟨f, hf, ht⟩)
    change ((cuts p q es [0, 1]) ++ ((cuts p q es [0, 1]).zip (cuts p q es [0, 1]).tail).map
      (fun (p : Rat × Rat) => (p.1 + p.2) / 2)).all (fun t => m (Spec.pointAt p q t)) = true ↔ _
    generalize cuts p q es [0, 1] = ts at hts hsorted hcut
    rw [List.all_eq_true]
    constructor
    · intro hall x hx
      obtain ⟨τ, τ0, τ1, rfl⟩ := (onSeg_iff_pointAt _ _ _).1 hx
      rcases gap ts hsorted τ ⟨0, hts.1, τ0⟩ ⟨1, hts.2.1, τ1⟩ with hin | ⟨⟨u, v⟩, huv, h1, h2, h3⟩
      · exact hall τ (List.mem_append_left _ hin)
      · simp only at h1 h2 h3
        have hmid := hall ((u + v) / 2) (List.mem_append_right _
          (List.mem_map.2 ⟨(u, v), huv, rfl⟩))
        obtain ⟨hu, hv⟩ := List.of_mem_zip huv
        have hu' := hts.2.2 u hu
        have hv' := hts.2.2 v (List.mem_of_mem_tail hv)
        have huv' : u < v := lt_trans h1 h2
        have hne : Spec.pointAt p q u ≠ Spec.pointAt p q v :=
          fun hh => absurd (pointAt_inj hpq hh) (ne_of_lt huv')
        have := h _ _ hne
          (fun e he => piece_dichotomy hpq e huv' hu'.1 hv'.2
            (fun t ht => h3 t (hcut e he t ht)))
          (Spec.pointAt p q τ) (Spec.pointAt p q ((u + v) / 2))
          ((openOn_pointAt hpq huv' _).2 ⟨τ, h1, h2, rfl⟩)
          ((openOn_pointAt hpq huv' _).2 ⟨(u + v) / 2, by linarith, by linarith, rfl⟩)
        rw [this]; exact hmid
    · intro hall t ht
      apply hall
      rw [List.mem_append] at ht
      rcases ht with ht | ht
      · exact pointAt_onSeg p q t (hts.2.2 t ht).1 (hts.2.2 t ht).2
      · rw [List.mem_map] at ht
        obtain ⟨⟨u, v⟩, huv, rfl⟩ := ht
        obtain ⟨hu, hv⟩ := List.of_mem_zip huv
        have hu' := hts.2.2 u hu
        have hv' := hts.2.2 v (List.mem_of_mem_tail hv)
        exact pointAt_onSeg p q _ (by simp only; linarith [hu'.1, hv'.1])
          (by simp only; linarith [hu'.2, hv'.2])

theorem segInsideOK_of_pieceConst {m : Pt → Bool} {es : List (Pt × Pt)} (h : PieceConst m es) :
    SegInsideOK m es := fun p q => segInside_iff m es h p q

end CS
end Geo
